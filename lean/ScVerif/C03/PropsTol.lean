import ScVerif.C03.PropsEquiv
import ScVerif.C03.Tol
/-!
# C03 — property theorems: a Value with a TOLERANCE equivalence (`cmp.FloatValueApprox`, `TimeValueWithin`, …)

`resource.WithMessageEquivalence(cmp.Equal(cmp.FloatValueApprox(0, k)))` — the default of the electric, fan speed and
energy storage models — is reflexive and symmetric but NOT transitive.  `Value.Pull` compares each change with the value
it SENT last (`dedupVal`); the reflexive-only theorems of `PropsEquiv.lean` therefore apply, and read on numbers they say:
what the receiver holds is never farther than the tolerance from the value of the resource.  The other design —
comparing each change with the value it REPLACED, as `Collection.Pull` does with `OldValue` (`dedupPrev`) — is
indistinguishable up to equivalence for every transitive comparer and drifts without bound for every non-transitive one.

Only property theorems and non-vacuity examples live in this file (definitions: `Equiv.lean`).
-/
namespace ScVerif.C03
open ScVerif.C02 (setAt)

/-- **Value with a tolerance — every stream.**  Integer messages, any tolerance `k`, every stream of changes of the
single id `j` (removals included), `last` = what the view holds: after `Value.Pull`'s compare-with-last-sent the
receiver's value and the value of ALL changes folded are both absent, or both present and at most `k` apart. -/
theorem C03_value_tolerance_bound (k : Nat) (j : Nat) (evs : List (Event Int)) (hid : ∀ e, e ∈ evs → e.id = j)
    (v : Nat → Option Int) :
    match (dedupVal (tolCmp k) (v j) evs).foldl applyEv v j, evs.foldl applyEv v j with
    | none, none => True
    | some x, some y => (x - y).natAbs ≤ k
    | _, _ => False := by
  have h := C03_forwarder_equivalence_value (tolCmp k) (tolCmp_refl k) j evs hid (v j) v (Or.inl rfl)
  revert h
  cases (dedupVal (tolCmp k) (v j) evs).foldl applyEv v j <;> cases evs.foldl applyEv v j <;> simp [tolCmp]

/-- **Convergence of a Value with a tolerance, partial.**  Every `ordered` run (churn, lossy or backpressured stage, any
consumer pace), seeded subscriber of a Value of integers whose equivalence is the tolerance `k`: at quiescence, stage
drained, the value the consumer holds and the masked stored value are both absent or at most `k` apart — however the
writes crept (ramps of sub-tolerance steps, sign changes). -/
theorem C03_converges_tolerance_value (k : Nat)
    (s₀ : Nat → Option Int) (progs : Nat → List (WOp Int)) (opts : Nat → SubOpts Int) (sched : List Act) :
    let c : Cfg Int := run (initCfg s₀ progs opts) sched
    ∀ s, (∀ e, e ∈ (c.subs s).obs → e.id = 0) → (c.subs s).updatesOnly = false →
      ordered (initCfg s₀ progs opts) sched = true → c.quiescent = true → (c.subs s).live = true →
      (c.subs s).pending = [] →
      match (c.subs s).obsViewEqVal (tolCmp k) 0,
        ((c.store 0).filter (fun x => inclOpt (c.subs s).incl 0 (some x))).map (c.subs s).mask with
      | none, none => True
      | some x, some y => (x - y).natAbs ≤ k
      | _, _ => False := by
  intro c s hid huo hord hq hs hp
  have h := (C03_converges_equiv_value (tolCmp k) (tolCmp_refl k) s₀ progs opts sched s hid
    (by intro h; rw [huo] at h; cases h)).2 hord hq hs hp
  revert h
  cases (c.subs s).obsViewEqVal (tolCmp k) 0 <;>
    cases ((c.store 0).filter (fun x => inclOpt (c.subs s).incl 0 (some x))).map (c.subs s).mask <;> simp [tolCmp]

/-- **The tolerance costs at most `k`, on EVERY schedule** (no `ordered`, overlapping writers included, any moment, lossy
or backpressured, any pace): what a seeded consumer of a Value with tolerance `k` holds after the equivalence check and
what it would hold had every received change been forwarded are both absent or at most `k` apart — the equivalence
layer never adds more than the tolerance to whatever the delivery layer below it does. -/
theorem C03_value_tolerance_all_schedules (k : Nat)
    (s₀ : Nat → Option Int) (progs : Nat → List (WOp Int)) (opts : Nat → SubOpts Int) (sched : List Act) :
    let c : Cfg Int := run (initCfg s₀ progs opts) sched
    ∀ s, (∀ e, e ∈ (c.subs s).obs → e.id = 0) → (c.subs s).updatesOnly = false →
      match (c.subs s).obsViewEqVal (tolCmp k) 0, (c.subs s).obsView 0 with
      | none, none => True
      | some x, some y => (x - y).natAbs ≤ k
      | _, _ => False := by
  intro c s hid huo
  have h := (C03_converges_equiv_value (tolCmp k) (tolCmp_refl k) s₀ progs opts sched s hid
    (by intro h; rw [huo] at h; cases h)).1
  revert h
  cases (c.subs s).obsViewEqVal (tolCmp k) 0 <;> cases (c.subs s).obsView 0 <;> simp [tolCmp]

variable {M : Type}

/-- **No two consecutive deliveries of a Value are equivalent** (what the equivalence is for) — EVERY comparer (nothing
assumed), every stream, every `last`: of the values `Value.Pull` sends after `last`, none is equivalent to the one sent
before it. -/
theorem C03_value_no_equivalent_neighbours (cmp : Option M → Option M → Bool) (evs : List (Event M)) (last : Option M) :
    noAdjEquiv cmp last ((dedupVal cmp last evs).map (·.new)) :=
  dedupVal_noAdjEquiv cmp evs last

/-- **Compare-with-the-replaced-value is sound exactly for transitive comparers (1).**  For every reflexive AND
transitive comparer, every stream of the single id `j`, `prev` = what the view holds: the loop that compares each change
with the previous VALUE (`dedupPrev`) leaves a view equivalent to the fold of all changes — with an exact equivalence the
two designs cannot be told apart. -/
theorem C03_value_compare_with_previous_transitive (cmp : Option M → Option M → Bool) (hrefl : ∀ a, cmp a a = true)
    (htrans : ∀ a b c, cmp a b = true → cmp b c = true → cmp a c = true)
    (j : Nat) (evs : List (Event M)) (hid : ∀ e, e ∈ evs → e.id = j) (v : Nat → Option M) :
    cmp ((dedupPrev cmp (v j) evs).foldl applyEv v j) (evs.foldl applyEv v j) = true :=
  dedupPrev_fold cmp hrefl htrans j evs hid (v j) v v rfl (hrefl _)

/-- **(2) … and unsound for every other one.**  For EVERY comparer that is not transitive there are a seed and a stream
of two changes of one id after which the compare-with-previous loop has sent nothing and the view it leaves is NOT
equivalent to the final value, while `Value.Pull`'s compare-with-last-sent loop, on the same stream, is
(`C03_forwarder_equivalence_value`). -/
theorem C03_value_compare_with_previous_drifts (cmp : Option M → Option M → Bool) (hrefl : ∀ a, cmp a a = true)
    (a b c : Option M) (hab : cmp a b = true) (hbc : cmp b c = true) (hac : cmp a c = false) :
    ∃ (evs : List (Event M)) (v : Nat → Option M), (∀ e, e ∈ evs → e.id = 0) ∧ linkOK true v evs ∧
      dedupPrev cmp (v 0) evs = [] ∧
      cmp ((dedupPrev cmp (v 0) evs).foldl applyEv v 0) (evs.foldl applyEv v 0) = false ∧
      cmp ((dedupVal cmp (v 0) evs).foldl applyEv v 0) (evs.foldl applyEv v 0) = true := by
  refine ⟨[⟨0, a, b, false, 0⟩, ⟨0, b, c, false, 1⟩], fun _ => a, ?_, ?_, ?_, ?_, ?_⟩
  · intro e he
    simp only [List.mem_cons, List.not_mem_nil, or_false] at he
    rcases he with h | h <;> rw [h]
  · simp [linkOK, applyEv, setAt]
  · simp [dedupPrev, hab, hbc]
  · simp [dedupPrev, hab, hbc, applyEv, setAt, hac]
  · exact C03_forwarder_equivalence_value cmp hrefl 0 _ (by
      intro e he
      simp only [List.mem_cons, List.not_mem_nil, or_false] at he
      rcases he with h | h <;> rw [h]) a (fun _ => a) (Or.inl rfl)

/-- **Transitivity is NECESSARY in `C03_forwarder_equivalence_collection`.**  `Collection.Pull` compares each change
with the value it replaced (its own `OldValue`): for EVERY comparer that is not transitive there is a LINKED stream of two
updates of one item, both skipped, after which the subscriber's item is not equivalent to the stored one.  (On the code
this is the drift of a Collection with a tolerance equivalence - recorded by C16; a Value does not have it, see
`C03_value_tolerance_bound`.) -/
theorem C03_collection_equivalence_needs_transitivity (cmp : Option M → Option M → Bool)
    (a b c : Option M) (hab : cmp a b = true) (hbc : cmp b c = true) (hac : cmp a c = false) :
    ∃ (evs : List (Event M)) (v : Nat → Option M), linkOK true v evs ∧ dedupColl cmp evs = [] ∧
      cmp ((dedupColl cmp evs).foldl applyEv v 0) (evs.foldl applyEv v 0) = false := by
  refine ⟨[⟨0, a, b, false, 0⟩, ⟨0, b, c, false, 1⟩], fun _ => a, ?_, ?_, ?_⟩
  · simp [linkOK, applyEv, setAt]
  · simp [dedupColl, hab, hbc]
  · simp [dedupColl, hab, hbc, applyEv, setAt, hac]

/-- **(3) The drift is unbounded.**  Tolerance `k ≥ 1`, any start `x` and any length `n`: on the ramp
`x+1, x+2, …, x+n` (every step within the tolerance of its predecessor) the compare-with-previous loop sends nothing,
so the receiver still holds `x` while the resource holds `x+n`; `Value.Pull`'s loop keeps it within `k`
(`C03_value_tolerance_bound`). -/
theorem C03_value_compare_with_previous_unbounded (k : Nat) (hk : 1 ≤ k) (x : Int) (n : Nat) :
    (∀ e, e ∈ rampEvs x n → e.id = 0) ∧ linkOK true (fun _ => some x) (rampEvs x n) ∧
    dedupPrev (tolCmp k) (some x) (rampEvs x n) = [] ∧
    (rampEvs x n).foldl applyEv (fun _ => some x) 0 = some (x + n) := by
  refine ⟨rampEvs_ids x n, rampEvs_linked n x _ rfl, rampEvs_dedupPrev k hk n x, ?_⟩
  exact rampEvs_fold n x _ rfl

/-- **The tolerance comparer itself** (`cmp.FloatValueApprox(fraction, margin)` read on integers, `fraction = num/den`;
tied to the code by the exhaustive K2 table `approx`): it is reflexive and symmetric for every fraction and margin; with
fraction 0 it is the `tolCmp` of the theorems above; and then a value and its NEGATION are within tolerance exactly when
twice the magnitude is within the margin — the distance is taken between the values, not between their magnitudes. -/
theorem C03_tolerance_comparer (num den margin : Nat) (x y : Int) :
    approxInt num den margin x x = true ∧
    approxInt num den margin x y = approxInt num den margin y x ∧
    tolCmp margin (some x) (some y) = approxInt 0 1 margin x y ∧
    (approxInt 0 1 margin x (-x) = true ↔ 2 * x.natAbs ≤ margin) :=
  ⟨approxInt_refl num den margin x, approxInt_symm num den margin x y, tolCmp_eq_approxInt margin x y,
    approxInt_neg margin x⟩

/-- non-vacuity: tolerance 2, seed 3, writes 5 7 9 11 13 (each exactly the tolerance away from its predecessor).
`Value.Pull` sends 7 and 11 and the receiver ends 2 from the store; the compare-with-previous loop sends nothing and the
receiver ends 10 from it.  The comparer is reflexive and not transitive. -/
example :
    let evs : List (Event Int) := [⟨0, some 3, some 5, false, 0⟩, ⟨0, some 5, some 7, false, 1⟩,
      ⟨0, some 7, some 9, false, 2⟩, ⟨0, some 9, some 11, false, 3⟩, ⟨0, some 11, some 13, false, 4⟩]
    (dedupVal (tolCmp 2) (some 3) evs).map (·.new) = [some 7, some 11] ∧
    (dedupPrev (tolCmp 2) (some 3) evs).map (·.new) = [] ∧
    tolCmp 2 (some 3) (some 5) = true ∧ tolCmp 2 (some 5) (some 7) = true ∧ tolCmp 2 (some 3) (some 7) = false ∧
    -- a sign change of equal magnitude is far beyond the tolerance; a relative margin of one half scales with the
    -- smaller magnitude
    tolCmp 2 (some 5) (some (-5)) = false ∧ approxInt 1 2 0 8 12 = true ∧ approxInt 1 2 0 8 13 = false ∧
    approxInt 1 2 0 (-8) 8 = false := by
  decide

end ScVerif.C03
