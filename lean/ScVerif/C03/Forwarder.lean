import ScVerif.C03.Lemmas
/-!
# C03 — the forwarder of `Collection.Pull` (include, then read mask) and linked change streams

`linkOK strict v L`: the changes of `L`, applied in order to the view `v`, each carry as `old` the value the view
holds for their id (`strict`), or — for a backpressured subscriber, which may be handed a duplicate of its seed —
at least already hold their `new` value.  This is what makes `(*CollectionChange).include` judge the right values.
-/
set_option linter.unusedSectionVars false
set_option linter.unusedVariables false
namespace ScVerif.C03
open ScVerif.C02 (setAt setAt_same setAt_other)

variable {M : Type}

def linkOK (strict : Bool) : (Nat → Option M) → List (Event M) → Prop
  | _, [] => True
  | v, e :: L => (v e.id = e.old ∨ (strict = false ∧ v e.id = e.new)) ∧ linkOK strict (applyEv v e) L

theorem linkOK_append (strict : Bool) (A B : List (Event M)) :
    ∀ v : Nat → Option M, linkOK strict v (A ++ B) ↔ linkOK strict v A ∧ linkOK strict (A.foldl applyEv v) B := by
  induction A with
  | nil => intro v; simp [linkOK]
  | cons a A ih =>
    intro v
    simp only [List.cons_append, linkOK, List.foldl_cons, ih]
    constructor
    · rintro ⟨h1, h2, h3⟩; exact ⟨⟨h1, h2⟩, h3⟩
    · rintro ⟨⟨h1, h2⟩, h3⟩; exact ⟨h1, h2, h3⟩

theorem linkOK_congr (strict : Bool) (L : List (Event M)) :
    ∀ v w : Nat → Option M, (∀ x, x ∈ ids L → v x = w x) → linkOK strict v L → linkOK strict w L := by
  induction L with
  | nil => intro v w _ _; trivial
  | cons e L ih =>
    intro v w hvw h
    simp only [linkOK] at h ⊢
    refine ⟨?_, ?_⟩
    · rw [← hvw e.id (by simp [ids])]
      exact h.1
    · apply ih (applyEv v e) (applyEv w e) ?_ h.2
      intro x hx
      simp only [applyEv, setAt]
      split
      · rfl
      · exact hvw x (by simp only [ids, List.map_cons, List.mem_cons]; exact Or.inr hx)

theorem linkOK_weaken (L : List (Event M)) :
    ∀ v : Nat → Option M, linkOK true v L → linkOK false v L := by
  induction L with
  | nil => intro v _; trivial
  | cons e L ih =>
    intro v h
    simp only [linkOK] at h ⊢
    refine ⟨?_, ih _ h.2⟩
    rcases h.1 with h1 | h1
    · exact Or.inl h1
    · exact absurd h1.1 (by simp)

/-- the merge stage keeps a strictly linked stream strictly linked: the merged change carries the `old` of the
first pending change of its id (`mergeChanges`: `b.OldValue = a.OldValue`) -/
theorem linkOK_mergeInto (P : List (Event M)) (e : Event M) (hU : (ids P).Nodup) :
    ∀ v : Nat → Option M, linkOK true v (P ++ [e]) → linkOK true v (mergeInto P e) := by
  induction P with
  | nil => intro v h; exact h
  | cons a P ih =>
    intro v h
    simp only [ids, List.map_cons, List.nodup_cons] at hU
    simp only [List.cons_append, linkOK] at h
    simp only [mergeInto]
    split
    · next heq =>
      have hnot : ∀ x, x ∈ ids P → v x = applyEv v a x := by
        intro x hx
        simp only [applyEv]
        rw [setAt_other]
        intro hxa
        rw [hxa] at hx
        exact hU.1 hx
      have hP : linkOK true v P := by
        have := ((linkOK_append true P [e] _).mp h.2).1
        exact linkOK_congr true P _ _ (fun x hx => (hnot x hx).symm) this
      split
      · exact hP
      · rw [linkOK_append]
        refine ⟨hP, ?_⟩
        simp only [linkOK, and_true]
        have hnote : ∀ x, x ∈ P → x.id ≠ e.id := by
          intro x hx hxe
          apply hU.1
          rw [heq, ← hxe]
          exact List.mem_map_of_mem hx
        left
        show (P.foldl applyEv v) e.id = a.old
        rw [foldl_untouched P _ hnote, ← heq]
        rcases h.1 with h1 | h1
        · exact h1
        · exact absurd h1.1 (by simp)
    · next hne =>
      simp only [linkOK]
      exact ⟨h.1, ih hU.2 _ h.2⟩

/-! ### changes of different ids commute: a delivery may overtake owed changes of OTHER ids -/

theorem foldl_comm_applyEv (A : List (Event M)) (e : Event M) (h : ∀ a, a ∈ A → a.id ≠ e.id) :
    ∀ X : Nat → Option M, A.foldl applyEv (applyEv X e) = applyEv (A.foldl applyEv X) e := by
  induction A with
  | nil => intro X; rfl
  | cons a A ih =>
    intro X
    simp only [List.foldl_cons]
    have hne : a.id ≠ e.id := h a List.mem_cons_self
    have hswap : applyEv (applyEv X e) a = applyEv (applyEv X a) e := by
      funext j
      simp only [applyEv, setAt]
      by_cases h1 : j = a.id
      · have h2 : ¬ j = e.id := by rw [h1]; exact hne
        simp [h1, hne]
      · simp [h1]
    rw [hswap, ih (fun a' ha' => h a' (List.mem_cons_of_mem _ ha'))]

theorem foldl_move (A R : List (Event M)) (e : Event M) (h : ∀ a, a ∈ A → a.id ≠ e.id) (X : Nat → Option M) :
    (A ++ e :: R).foldl applyEv X = (e :: (A ++ R)).foldl applyEv X := by
  simp only [List.foldl_append, List.foldl_cons]
  rw [foldl_comm_applyEv A e h]

theorem ids_ne_of (A : List (Event M)) (e : Event M) (h : ∀ a, a ∈ A → a.id ≠ e.id) :
    ∀ x, x ∈ ids A → x ≠ e.id := by
  intro x hx
  simp only [ids, List.mem_map] at hx
  obtain ⟨a, ha, rfl⟩ := hx
  exact h a ha

theorem chainOK_move (A R : List (Event M)) (e : Event M) (h : ∀ a, a ∈ A → a.id ≠ e.id) (X : Nat → Option M)
    (hc : chainOK X (A ++ e :: R)) : chainOK X (e :: (A ++ R)) := by
  rw [chainOK_append] at hc
  obtain ⟨hA, hE⟩ := hc
  simp only [chainOK] at hE ⊢
  rw [foldl_untouched A e.id h X] at hE
  refine ⟨hE.1, ?_⟩
  rw [chainOK_append, foldl_comm_applyEv A e h]
  refine ⟨chainOK_congr A X _ ?_ hA, hE.2⟩
  intro x hx
  simp only [applyEv]
  rw [setAt_other _ _ (ids_ne_of A e h x hx)]

theorem linkOK_move (strict : Bool) (A R : List (Event M)) (e : Event M) (h : ∀ a, a ∈ A → a.id ≠ e.id)
    (X : Nat → Option M) (hc : linkOK strict X (A ++ e :: R)) : linkOK strict X (e :: (A ++ R)) := by
  rw [linkOK_append] at hc
  obtain ⟨hA, hE⟩ := hc
  simp only [linkOK] at hE ⊢
  rw [foldl_untouched A e.id h X] at hE
  refine ⟨hE.1, ?_⟩
  rw [linkOK_append, foldl_comm_applyEv A e h]
  refine ⟨linkOK_congr strict A X _ ?_ hA, hE.2⟩
  intro x hx
  simp only [applyEv]
  rw [setAt_other _ _ (ids_ne_of A e h x hx)]

/-- changes that all carry the value the view already holds are (weakly) linked to it -/
theorem linkOK_stable (L : List (Event M)) :
    ∀ v : Nat → Option M, (∀ e, e ∈ L → v e.id = e.new) → linkOK false v L := by
  induction L with
  | nil => intro v _; trivial
  | cons e L ih =>
    intro v h
    have he : applyEv v e = v := by
      funext j
      simp only [applyEv, setAt]
      split
      · next hj => rw [hj]; exact (h e List.mem_cons_self).symm
      · rfl
    show (v e.id = e.old ∨ (false = false ∧ v e.id = e.new)) ∧ linkOK false (applyEv v e) L
    refine ⟨Or.inr ⟨rfl, h e List.mem_cons_self⟩, ?_⟩
    rw [he]
    exact ih v (fun e' he' => h e' (List.mem_cons_of_mem _ he'))

/-! ### what the forwarder does to one change -/

/-- a (possibly absent) stored value as the consumer is to see it: included values only, through the mask -/
def seedOpt (incl : Option (Nat → M → Bool)) (mask : M → M) (i : Nat) (o : Option M) : Option M :=
  (o.filter (fun x => inclOpt incl i (some x))).map mask

theorem seedView_apply (incl : Option (Nat → M → Bool)) (mask : M → M) (v : Nat → Option M) (i : Nat) :
    seedView incl mask v i = seedOpt incl mask i (v i) := rfl

theorem seedOpt_incl {incl : Option (Nat → M → Bool)} {mask : M → M} {i : Nat} {o : Option M}
    (h : inclOpt incl i o = true) : seedOpt incl mask i o = o.map mask := by
  cases o with
  | none => rfl
  | some x => simp [seedOpt, Option.filter, h]

theorem seedOpt_excl {incl : Option (Nat → M → Bool)} {mask : M → M} {i : Nat} {o : Option M}
    (h : inclOpt incl i o = false) : seedOpt incl mask i o = none := by
  cases o with
  | none => rfl
  | some x => simp [seedOpt, Option.filter, h]

/-- a forwarded change keeps its id and carries the new value as the consumer is to see it -/
theorem fwdEv_some {incl : Option (Nat → M → Bool)} {mask : M → M} {e e' : Event M}
    (h : fwdEv incl mask e = some e') : e'.id = e.id ∧ e'.new = seedOpt incl mask e.id e.new := by
  unfold fwdEv at h
  cases incl with
  | none =>
    simp only [Option.some.injEq] at h
    subst h
    refine ⟨rfl, ?_⟩
    cases hn : e.new with
    | none => rfl
    | some x => simp [seedOpt, Option.filter, inclOpt]
  | some f =>
    simp only [] at h
    cases hni : inclOpt (some f) e.id e.new <;> cases hoi : inclOpt (some f) e.id e.old <;>
      simp only [hni, hoi, if_true, if_false, Bool.false_eq_true, Bool.true_eq_false, reduceCtorEq,
        Option.some.injEq] at h
    · subst h; exact ⟨rfl, (seedOpt_excl hni).symm⟩
    · subst h; exact ⟨rfl, (seedOpt_incl hni).symm⟩
    · subst h; exact ⟨rfl, (seedOpt_incl hni).symm⟩

/-- a change is dropped only when neither its old nor its new value is included -/
theorem fwdEv_none {incl : Option (Nat → M → Bool)} {mask : M → M} {e : Event M}
    (h : fwdEv incl mask e = none) : inclOpt incl e.id e.old = false ∧ inclOpt incl e.id e.new = false := by
  unfold fwdEv at h
  cases incl with
  | none => simp at h
  | some f =>
    simp only [] at h
    cases hni : inclOpt (some f) e.id e.new <;> cases hoi : inclOpt (some f) e.id e.old <;>
      simp only [hni, hoi, if_true, if_false, Bool.false_eq_true, Bool.true_eq_false, reduceCtorEq] at h
    exact ⟨rfl, rfl⟩

/-- one change through the forwarder, applied to the consumer's view, is the change applied to the raw view -/
theorem fwd_step (incl : Option (Nat → M → Bool)) (mask : M → M) (v : Nat → Option M) (e : Event M)
    (h : v e.id = e.old ∨ v e.id = e.new) :
    ((fwdEv incl mask e).toList).foldl applyEv (seedView incl mask v) = seedView incl mask (applyEv v e) := by
  funext j
  cases hf : fwdEv incl mask e with
  | none =>
    obtain ⟨ho, hn⟩ := fwdEv_none hf
    simp only [Option.toList, List.foldl_nil, seedView_apply, applyEv, setAt]
    split
    · next hj =>
      subst hj
      rw [seedOpt_excl hn]
      rcases h with h | h
      · rw [h, seedOpt_excl ho]
      · rw [h, seedOpt_excl hn]
    · rfl
  | some e' =>
    obtain ⟨hid, hnew⟩ := fwdEv_some hf
    simp only [Option.toList, List.foldl_cons, List.foldl_nil, seedView_apply, applyEv, setAt, hid]
    split
    · next hj => subst hj; exact hnew
    · rfl

/-- **The forwarder on a linked stream.**  For every include function, read mask, start view and change stream
linked to it: applying the forwarded changes (include on the stored values, then the mask; dropped changes
skipped) to the forwarded seed gives the included, masked image of the raw view. -/
theorem fwd_fold (incl : Option (Nat → M → Bool)) (mask : M → M) (strict : Bool) (evs : List (Event M)) :
    ∀ v : Nat → Option M, linkOK strict v evs →
      (evs.filterMap (fwdEv incl mask)).foldl applyEv (seedView incl mask v)
        = seedView incl mask (evs.foldl applyEv v) := by
  induction evs with
  | nil => intro v _; rfl
  | cons e L ih =>
    intro v h
    simp only [linkOK] at h
    have hstep := fwd_step incl mask v e (by
      rcases h.1 with h1 | h1
      · exact Or.inl h1
      · exact Or.inr h1.2)
    rw [List.foldl_cons, ← ih _ h.2, ← hstep]
    cases hf : fwdEv incl mask e with
    | none => simp [hf]
    | some e' => simp [hf]

/-! ### the stream of one item (`PullID`) -/

/-- the value a fold of changes leaves at `j` is the new value of the last change of `j`, if there is one -/
theorem foldl_applyEv_last (L : List (Event M)) (j : Nat) :
    ∀ v : Nat → Option M, (L.foldl applyEv v) j =
      match (L.filter (fun e => e.id == j)).getLast? with
      | none => v j
      | some e => e.new := by
  induction L with
  | nil => intro v; rfl
  | cons e L ih =>
    intro v
    rw [List.foldl_cons, ih]
    by_cases hj : e.id = j
    · have hb : (e.id == j) = true := by simpa using hj
      have hf : (e :: L).filter (fun e => e.id == j) = e :: L.filter (fun e => e.id == j) := by
        simp [hj]
      rw [hf, List.getLast?_cons]
      cases hl : (L.filter (fun e => e.id == j)).getLast? with
      | none => simp [applyEv, hj]
      | some x => simp
    · have hb : ¬ ((e.id == j) = true) := by simpa using hj
      have hf : (e :: L).filter (fun e => e.id == j) = L.filter (fun e => e.id == j) := by
        simp [hj]
      rw [hf]
      cases hl : (L.filter (fun e => e.id == j)).getLast? with
      | none => simp only [applyEv]; exact setAt_other _ _ (fun h => hj h.symm)
      | some x => rfl

theorem takeWhile_all {α : Type} (p : α → Bool) (L : List α) (h : L.any (fun x => !p x) = false) :
    L.takeWhile p = L := by
  induction L with
  | nil => rfl
  | cons a L ih =>
    simp only [List.any_cons, Bool.or_eq_false_iff, Bool.not_eq_false'] at h
    rw [List.takeWhile_cons, if_pos h.1, ih h.2]

theorem getLast?_filterMap_new (L : List (Event M)) (h : L.any (fun e => e.new.isNone) = false) :
    (L.filterMap (·.new)).getLast? = L.getLast?.bind (·.new) := by
  induction L with
  | nil => rfl
  | cons a L ih =>
    simp only [List.any_cons, Bool.or_eq_false_iff] at h
    cases hn : a.new with
    | none => simp [hn] at h
    | some x =>
      rw [List.filterMap_cons, hn]
      simp only []
      rw [List.getLast?_cons, List.getLast?_cons, ih h.2]
      cases hl : L.getLast? with
      | none => simp [hn]
      | some y =>
        simp only [Option.bind_some, Option.getD_some]
        have hy : y ∈ L := List.mem_of_getLast? hl
        have hh := h.2
        rw [List.any_eq_false] at hh
        cases hyn : y.new with
        | none => exact absurd (by simp [hyn]) (hh y hy)
        | some z => simp

/-- **the PullID stream and the folded view agree**: as long as no REMOVE of the item has been received (the
stream has not ended), the last value delivered on the item's stream is what the folded view holds for it -/
theorem pullID_last (sb : Sub M) (id : Nat) (h : sb.pullIDEnded id = false) :
    (sb.pullID id).getLast? = sb.obsView id := by
  unfold Sub.pullIDEnded at h
  have htw : (sb.obs.filter (fun e => e.id == id)).takeWhile (fun e => e.new.isSome)
      = sb.obs.filter (fun e => e.id == id) := by
    apply takeWhile_all
    rw [← h]
    congr 1
    funext e
    cases e.new <;> rfl
  unfold Sub.pullID Sub.obsView
  rw [htw, foldl_applyEv_last, List.getLast?_append, getLast?_filterMap_new _ h]
  cases hl : (sb.obs.filter (fun e => e.id == id)).getLast? with
  | none =>
    simp only [Option.bind_none, Option.none_or]
    cases seedView sb.incl sb.mask sb.base id <;> rfl
  | some y =>
    have hy : y ∈ sb.obs.filter (fun e => e.id == id) := List.mem_of_getLast? hl
    rw [List.any_eq_false] at h
    cases hyn : y.new with
    | none => exact absurd (by simp [hyn]) (h y hy)
    | some z => simp [hyn]

/-- the consumer takes one more change: the observed view follows the raw view -/
theorem obsView_snoc (sb : Sub M) (e : Event M) (rest : List (Event M))
    (hobs : sb.obsView = seedView sb.incl sb.mask sb.rawView)
    (hcl : sb.rawView e.id = e.old ∨ sb.rawView e.id = e.new) :
    ({ sb with evs := sb.evs ++ [e], pending := rest } : Sub M).obsView
      = seedView sb.incl sb.mask ({ sb with evs := sb.evs ++ [e], pending := rest } : Sub M).rawView := by
  have h1 : ({ sb with evs := sb.evs ++ [e], pending := rest } : Sub M).rawView = applyEv sb.rawView e := by
    simp [Sub.rawView, List.foldl_append]
  rw [h1, ← fwd_step sb.incl sb.mask sb.rawView e hcl, ← hobs]
  simp only [Sub.obsView, Sub.obs, List.filterMap_append, List.foldl_append]
  cases hf : fwdEv sb.incl sb.mask e <;> simp [hf]

end ScVerif.C03
