import ScVerif.C03.Icpt
import ScVerif.C03.Props
/-!
# C03 — id interceptors (`resource.WithIDInterceptor`): property theorems

A collection with an id interceptor `icpt` (ANY function on ids — not assumed idempotent or injective), callers
naming items in their own spellings.  `named icpt progs i`: `i` is the interceptor's image of the id some call of the
programs names.
-/
set_option linter.unusedSectionVars false
set_option linter.unusedVariables false
namespace ScVerif.C03
open ScVerif.C02 (setAt)

variable {M : Type} [DecidableEq M]

/-- EVERY schedule (no hypothesis): whatever a publication in flight, a staged (possibly merged) change, a received
change or a change forwarded to the consumer names as its `Id` is the interceptor's image of an id some call named —
never a caller's own spelling that is not such an image.  (`Delete` announcing the REMOVE under the id it was CALLED
with breaks exactly this.) -/
theorem C03_interceptor_event_ids_stored (icpt : Nat → Nat) (s₀ : Nat → Option M) (progs : Nat → List (WOp M))
    (opts : Nat → SubOpts M) (sched : List Act) :
    let c : Cfg M := run (initI icpt s₀ progs opts) sched
    (∀ p, p ∈ c.pubs → named icpt progs p.ev.id) ∧
    ∀ s, (∀ e, e ∈ (c.subs s).pending → named icpt progs e.id) ∧
         (∀ e, e ∈ (c.subs s).evs → named icpt progs e.id) ∧
         (∀ e, e ∈ (c.subs s).obs → named icpt progs e.id) := by
  intro c
  have h : Ids (named icpt progs) c := (named_init icpt s₀ progs opts).runAll sched
  refine ⟨h.pubs, fun s => ⟨h.pending s, h.evs s, ?_⟩⟩
  intro e he
  unfold Sub.obs at he
  obtain ⟨a, ha, hf⟩ := List.mem_filterMap.mp he
  rw [(fwdEv_some hf).1]
  exact h.evs s a ha

/-- EVERY schedule: an id that is not such an image keeps the value it was created with, and every subscriber's
folded views (raw, and as observed through include function and read mask) hold there exactly what its seed held: no
entry ever appears or disappears under an id the collection stores nothing new under. -/
theorem C03_interceptor_store_frame (icpt : Nat → Nat) (s₀ : Nat → Option M) (progs : Nat → List (WOp M))
    (opts : Nat → SubOpts M) (sched : List Act) (i : Nat) (hi : ¬ named icpt progs i) :
    let c : Cfg M := run (initI icpt s₀ progs opts) sched
    c.store i = s₀ i ∧
    ∀ s, (c.subs s).rawView i = (c.subs s).base i ∧
         (c.subs s).obsView i = seedView (c.subs s).incl (c.subs s).mask (c.subs s).base i := by
  intro c
  have h0 := named_init icpt s₀ progs opts
  have h : Ids (named icpt progs) c := h0.runAll sched
  refine ⟨run_store_frame sched h0 i hi, fun s => ⟨?_, ?_⟩⟩
  · unfold Sub.rawView
    exact foldl_applyEv_other _ _ _ (fun e he heq => hi (heq ▸ h.evs s e he))
  · unfold Sub.obsView
    refine foldl_applyEv_other _ _ _ (fun e he heq => hi (heq ▸ ?_))
    unfold Sub.obs at he
    obtain ⟨a, ha, hf⟩ := List.mem_filterMap.mp he
    rw [(fwdEv_some hf).1]
    exact h.evs s a ha

/-- Ordered schedules, quiescence, a live drained subscriber: the view is the store under the subscriber's mask, and
`PullID(r)` — for ANY spelling `r` — that has not ended has delivered last what `Get(r)` returns (the item stored under
`icpt r`, if the include function accepts it, through the mask); two spellings with one image are one stream. -/
theorem C03_interceptor_converges (icpt : Nat → Nat) (s₀ : Nat → Option M) (progs : Nat → List (WOp M))
    (opts : Nat → SubOpts M) (sched : List Act) (hord : ordered (initI icpt s₀ progs opts) sched = true) :
    let c : Cfg M := run (initI icpt s₀ progs opts) sched
    c.quiescent = true → ∀ s, (c.subs s).live = true → (c.subs s).pending = [] →
      ((c.subs s).view = fun i => (c.store i).map (c.subs s).mask) ∧
      ∀ r, (c.subs s).pullIDEnded (icpt r) = false →
        ((c.subs s).pullID (icpt r)).getLast? =
          ((c.store (icpt r)).filter (fun x => inclOpt (c.subs s).incl (icpt r) (some x))).map (c.subs s).mask := by
  intro c hq s hl hp
  refine ⟨(C03_converges_partial s₀ _ opts sched hord).2 hq s hl hp, fun r hr => ?_⟩
  exact ((C03_pullid_converges s₀ _ opts sched hord (icpt r)) s hl hr).2 hq hp

/-- Ordered schedules, quiescence, a live drained subscriber: a `PullID` stream that has delivered anything HAS ENDED
once its item is gone (deleted, or no longer accepted by the include function) — for any spelling `r` of the item.
(A REMOVE announced under an id the stream does not recognise leaves it open for ever.) -/
theorem C03_pullid_ends_when_item_gone (icpt : Nat → Nat) (s₀ : Nat → Option M) (progs : Nat → List (WOp M))
    (opts : Nat → SubOpts M) (sched : List Act) (hord : ordered (initI icpt s₀ progs opts) sched = true) (r : Nat) :
    let c : Cfg M := run (initI icpt s₀ progs opts) sched
    c.quiescent = true → ∀ s, (c.subs s).live = true → (c.subs s).pending = [] →
      (c.store (icpt r)).filter (fun x => inclOpt (c.subs s).incl (icpt r) (some x)) = none →
      (c.subs s).pullID (icpt r) ≠ [] → (c.subs s).pullIDEnded (icpt r) = true := by
  intro c hq s hl hp hgone hne
  cases hend : (c.subs s).pullIDEnded (icpt r) with
  | true => rfl
  | false =>
    have h : ((c.subs s).pullID (icpt r)).getLast? =
        ((c.store (icpt r)).filter (fun x => inclOpt (c.subs s).incl (icpt r) (some x))).map (c.subs s).mask :=
      ((C03_pullid_converges s₀ _ opts sched hord (icpt r)) s hl hend).2 hq hp
    rw [hgone] at h
    simp only [Option.map_none] at h
    exact absurd (List.getLast?_eq_none_iff.mp h) hne
/-! ### Non-vacuity: a lower-casing style interceptor (`· % 100`), the item created as 105, changed as 5, deleted as 205 -/

def icptProg : Nat → List (WOp Int) := fun t =>
  if t = 0 then [.upd 105 (fun _ => some 1), .upd 5 (fun _ => some 2), .del 205 (fun _ => true), .upd 7 (fun _ => some 3)]
  else []

def icptSched : List Act :=
  [.sub 0, .commit 0, .snap 0, .deliver 0, .recv 0, .commit 0, .snap 0, .deliver 0, .recv 0,
   .commit 0, .deliver 0, .recv 0, .commit 0, .snap 0, .deliver 0, .recv 0]

def icptRun : Cfg Int := run (initI (· % 100) (fun _ => none) icptProg (fun _ => ⟨false, false, id, none⟩)) icptSched

example :
    ordered (initI (· % 100) (fun _ => none) icptProg (fun _ => ⟨false, false, id, none⟩)) icptSched = true ∧
    icptRun.quiescent = true ∧ (icptRun.subs 0).live = true ∧ (icptRun.subs 0).pending = [] ∧
    (icptRun.subs 0).evs.map (fun e => (e.id, e.new)) = [(5, some 1), (5, some 2), (5, none), (7, some 3)] ∧
    icptRun.store 5 = none ∧ icptRun.store 7 = some 3 ∧ icptRun.store 105 = none ∧
    (icptRun.subs 0).view 5 = none ∧ (icptRun.subs 0).view 7 = some 3 ∧
    (icptRun.subs 0).pullID 5 = [1, 2] ∧ (icptRun.subs 0).pullIDEnded ((· % 100) 205) = true ∧
    (icptRun.subs 0).pullIDEnded 7 = false := by
  decide

/-- Necessity of "the announced id is the stored one": the same run with the REMOVE announced under the spelling
`Delete` was CALLED with (205) instead of its image (5) — every other event unchanged.  The consumer's fold keeps the
deleted item although the store no longer has it, and the `PullID` stream of the item does not end. -/
example :
    let evs' : List (Event Int) := (icptRun.subs 0).evs.map (fun e => if e.new.isNone then { e with id := 205 } else e)
    let sub' : Sub Int := { icptRun.subs 0 with evs := evs' }
    icptRun.store 5 = none ∧ sub'.view 5 = some 2 ∧ sub'.pullIDEnded 5 = false ∧ sub'.pullID 5 = [1, 2] := by
  decide

end ScVerif.C03
