import ScVerif.C03.Model
/-!
# C03 — invariant: for every registered subscriber, its view followed by the events still owed to it
(in commit order) is the store.  Preserved by every step of an `ordered` run.
-/
set_option linter.unusedSectionVars false
set_option linter.unusedVariables false
namespace ScVerif.C03
open ScVerif.C02 (setAt setAt_same setAt_other)

variable {M : Type} [DecidableEq M]

theorem copies_none {s : Nat} {p : Pub M} (h : p.stage = none) : copies s p = [p.ev] := by
  simp [copies, h]

theorem copies_staged {s : Nat} {p : Pub M} {rem : List Nat} (h : p.stage = some rem) :
    copies s p = List.replicate (rem.count s) p.ev := by
  simp [copies, h, List.filter_beq]

theorem pubs_split {c : Cfg M} {k : Nat} {p : Pub M} {post : List (Pub M)} (h : c.pubs.drop k = p :: post) :
    c.pubs = c.pubs.take k ++ p :: post := by
  rw [← h, List.take_append_drop]

theorem foldl_applyEv_stable (v : Nat → Option M) (l : List (Event M))
    (h : ∀ e, e ∈ l → v e.id = e.new) : l.foldl applyEv v = v := by
  induction l with
  | nil => rfl
  | cons e l ih =>
    have he : applyEv v e = v := by
      funext j
      simp only [applyEv, setAt]
      split
      · next hj => rw [hj]; exact (h e (List.mem_cons_self)).symm
      · rfl
    rw [List.foldl_cons, he]
    exact ih (fun e' he' => h e' (List.mem_cons_of_mem _ he'))

structure Inv (c : Cfg M) : Prop where
  view : ∀ s, (c.subs s).registered = true → (inflight c s).foldl applyEv (c.subs s).view = c.store
  lis : ∀ s, c.listeners.count s = if (c.subs s).registered = true then 1 else 0
  rem : ∀ p, p ∈ c.pubs → ∀ rem, p.stage = some rem → ∀ s, (c.subs s).registered = false → rem.count s = 0

theorem Inv.no_listeners {c : Cfg M} (h : Inv c) (he : c.listeners.isEmpty = true) (s : Nat) :
    (c.subs s).registered = false := by
  have := h.lis s
  rw [List.isEmpty_iff.mp he] at this
  cases hr : (c.subs s).registered
  · rfl
  · rw [hr] at this; simp at this

theorem Inv.init (s₀ : Nat → Option M) (progs : Nat → List (WOp M)) (uo : Nat → Bool) :
    Inv (initCfg s₀ progs uo) := by
  refine ⟨?_, ?_, ?_⟩
  · intro s hs; simp [initCfg] at hs
  · intro s; simp [initCfg]
  · intro p hp; simp [initCfg] at hp

/-! ### commit -/

theorem Inv.popOp {c : Cfg M} (h : Inv c) (t : Nat) (rest : List (WOp M)) (b : Bool) : Inv (c.popOp t rest b) :=
  ⟨h.view, h.lis, h.rem⟩

theorem Inv.stepCommit {c : Cfg M} (h : Inv c) (t : Nat) : Inv (stepCommit c t) := by
  unfold ScVerif.C03.stepCommit
  simp only []
  split
  · exact h
  · split
    · exact h
    · next _ id f rest _ =>
      split
      · exact h.popOp t rest false
      · next v hv =>
        refine ⟨?_, h.lis, ?_⟩
        · intro s hs
          show (List.flatMap (copies s) (c.pubs ++ [_])).foldl applyEv (c.subs s).view = applyEv c.store _
          rw [List.flatMap_append, List.foldl_append]
          have := h.view s hs
          unfold inflight at this
          rw [this]
          simp [copies]
        · intro p hp rem hrem s hs
          show rem.count s = 0
          have hp' : p ∈ c.pubs ++ [⟨t, ⟨id, some v, c.nextSeq⟩, none, false⟩] := hp
          rw [List.mem_append] at hp'
          rcases hp' with hp' | hp'
          · exact h.rem p hp' rem hrem s hs
          · simp at hp'; rw [hp'] at hrem; simp at hrem
    · next _ id p rest _ =>
      split
      · exact h.popOp t rest false
      · next b hb =>
        split
        · split
          · next hemp =>
            -- no listener at all: nobody is registered
            refine ⟨?_, h.lis, h.rem⟩
            intro s hs
            have := h.no_listeners hemp s
            have hs' : (c.subs s).registered = true := hs
            rw [this] at hs'; cases hs'
          · next hne =>
            refine ⟨?_, h.lis, ?_⟩
            · intro s hs
              show (List.flatMap (copies s) (c.pubs ++ [_])).foldl applyEv (c.subs s).view = applyEv c.store _
              rw [List.flatMap_append, List.foldl_append]
              have := h.view s hs
              unfold inflight at this
              rw [this]
              have hc : c.listeners.count s = 1 := by
                have := h.lis s
                have hs' : (c.subs s).registered = true := hs
                rw [hs'] at this; simpa using this
              simp [copies_staged (s := s) (p := (⟨t, ⟨id, none, c.nextSeq⟩, some c.listeners, true⟩ : Pub M)) rfl, hc]
            · intro q hq rem hrem s hs
              show rem.count s = 0
              have hq' : q ∈ c.pubs ++ [⟨t, ⟨id, none, c.nextSeq⟩, some c.listeners, true⟩] := hq
              rw [List.mem_append] at hq'
              rcases hq' with hq' | hq'
              · exact h.rem q hq' rem hrem s hs
              · simp at hq'
                rw [hq'] at hrem
                simp at hrem
                rw [← hrem]
                have := h.lis s
                have hs' : (c.subs s).registered = false := hs
                rw [hs'] at this; simpa using this
        · exact h.popOp t rest false

/-! ### snapshot -/

theorem Inv.stepSnap {c : Cfg M} (h : Inv c) (k : Nat) : Inv (stepSnap c k) := by
  unfold ScVerif.C03.stepSnap
  split
  · exact h
  · next p post hdrop =>
    have hsplit := pubs_split hdrop
    split
    · exact h
    · next hstage =>
      split
      · next hemp =>
        refine ⟨?_, h.lis, ?_⟩
        · intro s hs
          have := h.no_listeners hemp s
          have hs' : (c.subs s).registered = true := hs
          rw [this] at hs'; cases hs'
        · intro q hq rem hrem s hs
          apply h.rem q ?_ rem hrem s hs
          rw [hsplit]
          have hq' : q ∈ c.pubs.take k ++ post := hq
          rw [List.mem_append] at hq' ⊢
          rcases hq' with hq' | hq'
          · exact Or.inl hq'
          · exact Or.inr (List.mem_cons_of_mem _ hq')
      · next hne =>
        refine ⟨?_, h.lis, ?_⟩
        · intro s hs
          have hv := h.view s hs
          unfold inflight at hv ⊢
          show (List.flatMap (copies s) (c.pubs.take k ++ { p with stage := some c.listeners } :: post)).foldl applyEv
              (c.subs s).view = c.store
          rw [hsplit] at hv
          have hc : c.listeners.count s = 1 := by
            have := h.lis s
            have hs' : (c.subs s).registered = true := hs
            rw [hs'] at this; simpa using this
          have e1 : copies s ({ p with stage := some c.listeners } : Pub M) = [p.ev] := by
            rw [copies_staged (rem := c.listeners) rfl, hc]; rfl
          have e2 : copies s p = [p.ev] := copies_none hstage
          simp only [List.flatMap_append, List.flatMap_cons, e1, e2] at hv ⊢
          exact hv
        · intro q hq rem hrem s hs
          show rem.count s = 0
          have hq' : q ∈ c.pubs.take k ++ { p with stage := some c.listeners } :: post := hq
          rw [List.mem_append, List.mem_cons] at hq'
          rcases hq' with hq' | hq' | hq'
          · exact h.rem q (by rw [hsplit]; exact List.mem_append_left _ hq') rem hrem s hs
          · rw [hq'] at hrem
            simp at hrem
            rw [← hrem]
            have := h.lis s
            have hs' : (c.subs s).registered = false := hs
            rw [hs'] at this; simpa using this
          · exact h.rem q (by rw [hsplit]; exact List.mem_append_right _ (List.mem_cons_of_mem _ hq')) rem hrem s hs

/-! ### deliver -/

theorem view_snoc (sb : Sub M) (e : Event M) :
    ({ sb with evs := sb.evs ++ [e] } : Sub M).view = applyEv sb.view e := by
  simp [Sub.view, List.foldl_append]

theorem flatMap_copies_nil {s : Nat} {l : List (Pub M)}
    (h : l.all (fun q => (copies s q).isEmpty) = true) : l.flatMap (copies s) = [] := by
  induction l with
  | nil => rfl
  | cons q l ih =>
    simp only [List.all_cons, Bool.and_eq_true] at h
    rw [List.flatMap_cons, ih h.2, List.isEmpty_iff.mp h.1]; rfl

theorem Inv.stepDeliver {c : Cfg M} (h : Inv c) (k : Nat) (hok : okStep c (.deliver k) = true) :
    Inv (stepDeliver c k) := by
  unfold ScVerif.C03.stepDeliver
  simp only [okStep] at hok
  split
  · exact h
  · next p post hdrop =>
    have hsplit := pubs_split hdrop
    rw [hdrop] at hok
    simp only [] at hok
    split
    · exact h
    · exact h
    · next s rem hstage =>
      rw [hstage] at hok
      simp only [] at hok
      have hpre := flatMap_copies_nil hok
      -- the views: common to both outcomes
      have hview : ∀ (p' : List (Pub M)) s',
          (∀ s'', p'.flatMap (copies s'') = (List.replicate (rem.count s'') p.ev)) →
          (setAt c.subs s { c.subs s with evs := (c.subs s).evs ++ [p.ev] } s').registered = true →
          (List.flatMap (copies s') (c.pubs.take k ++ (p' ++ post))).foldl applyEv
            (setAt c.subs s { c.subs s with evs := (c.subs s).evs ++ [p.ev] } s').view = c.store := by
        intro p' s' hp' hs'
        by_cases hss : s' = s
        · subst hss
          simp only [setAt_same] at hs' ⊢
          have hv := h.view s' hs'
          unfold inflight at hv
          rw [hsplit] at hv
          simp only [List.flatMap_append, List.flatMap_cons, hpre, List.nil_append,
            copies_staged hstage, List.count_cons_self, List.replicate_succ, List.cons_append,
            List.foldl_cons] at hv
          rw [view_snoc]
          simp only [List.flatMap_append, hpre, List.nil_append, hp']
          exact hv
        · rw [setAt_other _ _ hss] at hs' ⊢
          have hv := h.view s' hs'
          unfold inflight at hv
          rw [hsplit] at hv
          have hcount : (s :: rem).count s' = rem.count s' := by
            rw [List.count_cons]
            have : (s == s') = false := by simpa using (Ne.symm hss)
            simp [this]
          simp only [List.flatMap_append, List.flatMap_cons, copies_staged hstage, hcount] at hv
          simp only [List.flatMap_append, hp']
          exact hv
      have hrem : ∀ q, q ∈ c.pubs.take k ++ post → ∀ rem', q.stage = some rem' → ∀ s',
          (setAt c.subs s { c.subs s with evs := (c.subs s).evs ++ [p.ev] } s').registered = false →
          rem'.count s' = 0 := by
        intro q hq rem' hrem' s' hs'
        have hreg : (c.subs s').registered = false := by
          by_cases hss : s' = s
          · subst hss; simpa using hs'
          · rwa [setAt_other _ _ hss] at hs'
        apply h.rem q ?_ rem' hrem' s' hreg
        rw [hsplit]
        rw [List.mem_append] at hq ⊢
        rcases hq with hq | hq
        · exact Or.inl hq
        · exact Or.inr (List.mem_cons_of_mem _ hq)
      have hlis : ∀ s', c.listeners.count s' =
          if (setAt c.subs s { c.subs s with evs := (c.subs s).evs ++ [p.ev] } s').registered = true then 1 else 0 := by
        intro s'
        by_cases hss : s' = s
        · subst hss; simpa using h.lis s'
        · rw [setAt_other _ _ hss]; exact h.lis s'
      simp only []
      split
      · next hemp =>
        have hremnil : rem = [] := List.isEmpty_iff.mp hemp
        refine ⟨?_, hlis, ?_⟩
        · intro s' hs'
          have := hview [] s' (by intro s''; simp [hremnil]) hs'
          simp only [List.nil_append] at this
          exact this
        · intro q hq rem' hrem' s' hs'
          exact hrem q hq rem' hrem' s' hs'
      · next hne =>
        refine ⟨?_, hlis, ?_⟩
        · intro s' hs'
          have := hview [{ p with stage := some rem }] s'
            (by intro s''; simp [copies_staged (s := s'') (p := ({ p with stage := some rem } : Pub M)) rfl]) hs'
          simp only [List.singleton_append] at this
          exact this
        · intro q hq rem' hrem' s' hs'
          show rem'.count s' = 0
          have hq' : q ∈ c.pubs.take k ++ { p with stage := some rem } :: post := hq
          rw [List.mem_append, List.mem_cons] at hq'
          rcases hq' with hq' | hq' | hq'
          · exact hrem q (List.mem_append_left _ hq') rem' hrem' s' hs'
          · rw [hq'] at hrem'
            simp at hrem'
            rw [← hrem']
            have hreg : (c.subs s').registered = false := by
              have hs2 : (setAt c.subs s { c.subs s with evs := (c.subs s).evs ++ [p.ev] } s').registered = false := hs'
              by_cases hss : s' = s
              · subst hss; simpa using hs2
              · rwa [setAt_other _ _ hss] at hs2
            have := h.rem p (by rw [hsplit]; simp) (s :: rem) hstage s' hreg
            rw [List.count_cons] at this
            omega
          · exact hrem q (List.mem_append_right _ hq') rem' hrem' s' hs'

/-! ### subscribe -/

theorem Inv.stepSub {c : Cfg M} (h : Inv c) (s : Nat) (hok : okStep c (.sub s) = true) : Inv (stepSub c s) := by
  unfold ScVerif.C03.stepSub
  simp only []
  split
  · exact h
  · next hcond =>
    have hunreg : (c.subs s).registered = false := by
      cases hr : (c.subs s).registered
      · rfl
      · simp [hr] at hcond
    simp only [okStep] at hok
    rw [List.all_eq_true] at hok
    refine ⟨?_, ?_, ?_⟩
    · intro s' hs'
      by_cases hss : s' = s
      · subst hss
        show (List.flatMap (copies s') c.pubs).foldl applyEv (setAt c.subs s' _ s').view = c.store
        simp only [setAt_same, Sub.view, List.foldl_nil]
        apply foldl_applyEv_stable
        intro e he
        rw [List.mem_flatMap] at he
        obtain ⟨p, hp, hep⟩ := he
        cases hst : p.stage with
        | none =>
          rw [copies_none hst] at hep
          simp at hep
          subst hep
          have := hok p hp
          simpa [hst] using this
        | some rem =>
          rw [copies_staged hst, h.rem p hp rem hst s' hunreg] at hep
          simp at hep
      · show (List.flatMap (copies s') c.pubs).foldl applyEv (setAt c.subs s _ s').view = c.store
        have hs'' : (c.subs s').registered = true := by
          have : (setAt c.subs s _ s').registered = true := hs'
          rwa [setAt_other _ _ hss] at this
        rw [setAt_other _ _ hss]
        exact h.view s' hs''
    · intro s'
      show (c.listeners ++ [s]).count s' = if (setAt c.subs s _ s').registered = true then 1 else 0
      by_cases hss : s' = s
      · subst hss
        have := h.lis s'
        rw [hunreg] at this
        simp at this
        simp [List.count_append, this]
      · rw [setAt_other _ _ hss, List.count_append, h.lis s']
        have : (s == s') = false := by simpa using (Ne.symm hss)
        simp [List.count_cons, this]
    · intro p hp rem hrem s' hs'
      have hs'' : (setAt c.subs s { c.subs s with registered := true, base := c.store, evs := [], subAt := c.nextSeq } s').registered = false := hs'
      by_cases hss : s' = s
      · subst hss; simp at hs''
      · rw [setAt_other _ _ hss] at hs''
        exact h.rem p hp rem hrem s' hs''

theorem Inv.step {c : Cfg M} (h : Inv c) (a : Act) (hok : okStep c a = true) : Inv (step c a) := by
  cases a with
  | commit t => exact h.stepCommit t
  | snap k => exact h.stepSnap k
  | deliver k => exact h.stepDeliver k hok
  | sub s => exact h.stepSub s hok

theorem Inv.run {c : Cfg M} (h : Inv c) (sched : List Act) (hord : ordered c sched = true) :
    Inv (run c sched) := by
  induction sched generalizing c with
  | nil => exact h
  | cons a rest ih =>
    simp only [ordered, Bool.and_eq_true] at hord
    exact ih (h.step a hord.1) hord.2

end ScVerif.C03
