import ScVerif.C03.Forwarder
/-!
# C03 — invariants and their preservation by every step

`Inv ord c`:
* (all schedules) the bus holds each live subscriber exactly once and no unregistered one; a listener copy never
  names an unregistered subscriber; pending ids are distinct; NO MISS: every commit since a live subscriber's
  subscribe step has been handed to its stage or is still owed to it;
* (`ord = true`: schedules whose steps satisfy `okStep`) for every live subscriber, its raw view followed by its
  pending stage followed by the events still owed to it (in commit order) is the store; that stream is a
  well-formed change chain (lossy) and LINKED: every change carries as `old` the value the view holds when it is
  applied (a backpressured subscriber may instead already hold its `new` value: a duplicate of the seed).
-/
set_option linter.unusedSectionVars false
set_option linter.unusedVariables false
namespace ScVerif.C03
open ScVerif.C02 (setAt setAt_same setAt_other)

variable {M : Type} [DecidableEq M]

structure Inv (ord : Bool) (c : Cfg M) : Prop where
  view : ord = true → ∀ s, (c.subs s).live = true →
    ((c.subs s).pending ++ inflight c s).foldl applyEv (c.subs s).rawView = c.store
  chain : ord = true → ∀ s, (c.subs s).live = true → (c.subs s).lossy = true →
    chainOK (c.subs s).rawView ((c.subs s).pending ++ inflight c s)
  link : ord = true → ∀ s, (c.subs s).live = true →
    linkOK (c.subs s).lossy (c.subs s).rawView ((c.subs s).pending ++ inflight c s)
  obs : ord = true → ∀ s, (c.subs s).live = true →
    (c.subs s).obsView = seedView (c.subs s).incl (c.subs s).mask (c.subs s).rawView
  lisLive : ∀ s, (c.subs s).live = true → c.listeners.count s = 1
  lisUnreg : ∀ s, (c.subs s).registered = false → c.listeners.count s = 0
  rem : ∀ p, p ∈ c.pubs → ∀ rem, p.stage = some rem → ∀ s, (c.subs s).registered = false → rem.count s = 0
  uniq : ∀ s, (ids (c.subs s).pending).Nodup
  nomiss : ∀ s, (c.subs s).live = true → ∀ k, (c.subs s).subAt ≤ k → k < c.nextSeq →
    k ∈ (c.subs s).got ∨ k ∈ (inflight c s).map (·.seq)

theorem live_registered {sb : Sub M} (h : sb.live = true) : sb.registered = true ∧ sb.cancelled = false := by
  simp only [Sub.live, Bool.and_eq_true, Bool.not_eq_true'] at h
  exact h

theorem Inv.no_listeners {ord : Bool} {c : Cfg M} (h : Inv ord c) (he : c.listeners.isEmpty = true) (s : Nat) :
    (c.subs s).live = false := by
  cases hl : (c.subs s).live
  · rfl
  · have := h.lisLive s hl
    rw [List.isEmpty_iff.mp he] at this
    simp at this

theorem Inv.init (ord : Bool) (s₀ : Nat → Option M) (progs : Nat → List (WOp M)) (opts : Nat → SubOpts M) :
    Inv ord (initCfg s₀ progs opts) := by
  refine ⟨?_, ?_, ?_, ?_, ?_, ?_, ?_, ?_, ?_⟩
  · intro _ s hs; simp [initCfg, Sub.live] at hs
  · intro _ s hs; simp [initCfg, Sub.live] at hs
  · intro _ s hs; simp [initCfg, Sub.live] at hs
  · intro _ s hs; simp [initCfg, Sub.live] at hs
  · intro s hs; simp [initCfg, Sub.live] at hs
  · intro s _; simp [initCfg]
  · intro p hp; simp [initCfg] at hp
  · intro s; simp [initCfg, ids]
  · intro s hs; simp [initCfg, Sub.live] at hs

/-! ### collect -/

theorem count_collect_live {c : Cfg M} {s : Nat} (hl : (c.subs s).live = true) :
    (c.listeners.filter (fun s => !(c.subs s).cancelled)).count s = c.listeners.count s := by
  apply List.count_filter
  simp [(live_registered hl).2]

theorem count_collect_zero {c : Cfg M} {s : Nat} (h : c.listeners.count s = 0) :
    (c.listeners.filter (fun s => !(c.subs s).cancelled)).count s = 0 := by
  rw [List.count_eq_zero] at h ⊢
  intro hm
  exact h (List.mem_filter.mp hm).1

/-- Ending a publication (with or without `collect`) keeps everything that does not mention `pubs`. -/
theorem finish_lis {ord : Bool} {c : Cfg M} (h : Inv ord c) (p : Pub M) (pubs' : List (Pub M)) :
    (∀ s, ((c.finishPub p pubs').subs s).live = true → (c.finishPub p pubs').listeners.count s = 1) ∧
    (∀ s, ((c.finishPub p pubs').subs s).registered = false → (c.finishPub p pubs').listeners.count s = 0) := by
  constructor
  · intro s hs
    show (if p.gc then _ else _ : List Nat).count s = 1
    have hs' : (c.subs s).live = true := hs
    split
    · rw [count_collect_live hs']; exact h.lisLive s hs'
    · exact h.lisLive s hs'
  · intro s hs
    show (if p.gc then _ else _ : List Nat).count s = 0
    split
    · exact count_collect_zero (h.lisUnreg s hs)
    · exact h.lisUnreg s hs

/-! ### commit -/

theorem Inv.popOp {ord : Bool} {c : Cfg M} (h : Inv ord c) (t : Nat) (rest : List (WOp M)) (b : Bool) :
    Inv ord (c.popOp t rest b) :=
  ⟨h.view, h.chain, h.link, h.obs, h.lisLive, h.lisUnreg, h.rem, h.uniq, h.nomiss⟩

/-- a commit that appends a publication whose single copy reaches every live subscriber -/
theorem Inv.commitPub {ord : Bool} {c : Cfg M} (h : Inv ord c) (t : Nat) (rest : List (WOp M)) (e : Event M)
    (p : Pub M) (hev : p.ev = e) (hseq : e.seq = c.nextSeq)
    (hcop : ∀ s, (c.subs s).live = true → copies s p = [e])
    (hrem : ∀ rem, p.stage = some rem → ∀ s, (c.subs s).registered = false → rem.count s = 0)
    (hadd : e.isAdd = true → c.store e.id = none)
    (hold : c.store e.id = e.old)
    (lock' : Option Nat) :
    Inv ord { c.popOp t rest true with
      store := applyEv c.store e, nextSeq := c.nextSeq + 1, lock := lock', pubs := c.pubs ++ [p] } := by
  refine ⟨?_, ?_, ?_, h.obs, h.lisLive, h.lisUnreg, ?_, h.uniq, ?_⟩
  · intro hord s hs
    show ((c.subs s).pending ++ List.flatMap (copies s) (c.pubs ++ [p])).foldl applyEv (c.subs s).rawView
      = applyEv c.store e
    have := h.view hord s hs
    unfold inflight at this
    rw [List.flatMap_append, ← List.append_assoc, List.foldl_append, this]
    simp [hcop s hs]
  · intro hord s hs hl
    show chainOK (c.subs s).rawView ((c.subs s).pending ++ List.flatMap (copies s) (c.pubs ++ [p]))
    have hv := h.view hord s hs
    have hc := h.chain hord s hs hl
    unfold inflight at hv hc
    rw [List.flatMap_append, ← List.append_assoc, chainOK_append, hv]
    refine ⟨hc, ?_⟩
    rw [List.flatMap_cons, List.flatMap_nil, List.append_nil, hcop s hs]
    simp only [chainOK, and_true]
    exact hadd
  · intro hord s hs
    show linkOK (c.subs s).lossy (c.subs s).rawView ((c.subs s).pending ++ List.flatMap (copies s) (c.pubs ++ [p]))
    have hv := h.view hord s hs
    have hc := h.link hord s hs
    unfold inflight at hv hc
    rw [List.flatMap_append, ← List.append_assoc, linkOK_append, hv]
    refine ⟨hc, ?_⟩
    rw [List.flatMap_cons, List.flatMap_nil, List.append_nil, hcop s hs]
    simp only [linkOK, and_true]
    exact Or.inl hold
  · intro q hq rem hrem' s hs
    have hq' : q ∈ c.pubs ++ [p] := hq
    rw [List.mem_append] at hq'
    rcases hq' with hq' | hq'
    · exact h.rem q hq' rem hrem' s hs
    · simp at hq'; subst hq'; exact hrem rem hrem' s hs
  · intro s hs k hk1 hk2
    show k ∈ (c.subs s).got ∨ k ∈ (List.flatMap (copies s) (c.pubs ++ [p])).map (·.seq)
    have hk2' : k < c.nextSeq + 1 := hk2
    by_cases hk : k < c.nextSeq
    · rcases h.nomiss s hs k hk1 hk with h1 | h1
      · exact Or.inl h1
      · right
        unfold inflight at h1
        rw [List.flatMap_append, List.map_append, List.mem_append]
        exact Or.inl h1
    · right
      have : k = c.nextSeq := by omega
      rw [List.flatMap_append, List.map_append, List.mem_append]
      right
      simp [hcop s hs, hseq, this]

theorem Inv.stepCommit {ord : Bool} {c : Cfg M} (h : Inv ord c) (t : Nat) : Inv ord (stepCommit c t) := by
  unfold ScVerif.C03.stepCommit
  simp only []
  split
  · exact h
  · split
    · exact h
    · next _ id f rest _ =>
      split
      · exact h.popOp t rest false
      · next v hv =>
        exact h.commitPub t rest ⟨id, c.store id, some v, (c.store id).isNone, c.nextSeq⟩ _ rfl rfl
          (fun s _ => copies_none rfl) (fun rem hrem => by simp at hrem)
          (by intro hadd; simpa using hadd) rfl c.lock
    · next _ id p rest _ =>
      split
      · exact h.popOp t rest false
      · next b hb =>
        split
        · split
          · next hemp =>
            -- no listener at all: nobody is live
            refine ⟨?_, ?_, ?_, h.obs, h.lisLive, h.lisUnreg, h.rem, h.uniq, ?_⟩
            · intro _ s hs
              have := h.no_listeners hemp s
              have hs' : (c.subs s).live = true := hs
              rw [this] at hs'; cases hs'
            · intro _ s hs
              have := h.no_listeners hemp s
              have hs' : (c.subs s).live = true := hs
              rw [this] at hs'; cases hs'
            · intro _ s hs
              have := h.no_listeners hemp s
              have hs' : (c.subs s).live = true := hs
              rw [this] at hs'; cases hs'
            · intro s hs
              have := h.no_listeners hemp s
              have hs' : (c.subs s).live = true := hs
              rw [this] at hs'; cases hs'
          · next hne =>
            exact h.commitPub t rest ⟨id, some b, none, false, c.nextSeq⟩ ⟨t, ⟨id, some b, none, false, c.nextSeq⟩, some c.listeners, true, false⟩
              rfl rfl
              (fun s hs => by
                rw [copies_staged (rem := c.listeners) rfl, h.lisLive s hs]; rfl)
              (fun rem hrem s hs => by
                simp at hrem; rw [← hrem]; exact h.lisUnreg s hs)
              (by intro hadd; cases hadd)
              hb
              (some t)
        · exact h.popOp t rest false

/-! ### snapshot -/

theorem Inv.stepSnap {ord : Bool} {c : Cfg M} (h : Inv ord c) (k : Nat) : Inv ord (stepSnap c k) := by
  unfold ScVerif.C03.stepSnap
  split
  · exact h
  · next p post hdrop =>
    have hsplit := pubs_split hdrop
    split
    · exact h
    · next hstage =>
      split
      · next hemp =>
        have hfl := finish_lis h p (c.pubs.take k ++ post)
        refine ⟨?_, ?_, ?_, h.obs, hfl.1, hfl.2, ?_, h.uniq, ?_⟩
        · intro _ s hs
          have := h.no_listeners hemp s
          have hs' : (c.subs s).live = true := hs
          rw [this] at hs'; cases hs'
        · intro _ s hs
          have := h.no_listeners hemp s
          have hs' : (c.subs s).live = true := hs
          rw [this] at hs'; cases hs'
        · intro _ s hs
          have := h.no_listeners hemp s
          have hs' : (c.subs s).live = true := hs
          rw [this] at hs'; cases hs'
        · intro q hq rem hrem s hs
          apply h.rem q ?_ rem hrem s hs
          rw [hsplit]
          have hq' : q ∈ c.pubs.take k ++ post := hq
          rw [List.mem_append] at hq' ⊢
          rcases hq' with hq' | hq'
          · exact Or.inl hq'
          · exact Or.inr (List.mem_cons_of_mem _ hq')
        · intro s hs
          have := h.no_listeners hemp s
          have hs' : (c.subs s).live = true := hs
          rw [this] at hs'; cases hs'
      · next hne =>
        have hinfl : ∀ s, (c.subs s).live = true →
            List.flatMap (copies s) (c.pubs.take k ++ { p with stage := some c.listeners } :: post)
              = inflight c s := by
          intro s hs
          unfold inflight
          conv => rhs; rw [hsplit]
          have e1 : copies s ({ p with stage := some c.listeners } : Pub M) = [p.ev] := by
            rw [copies_staged (rem := c.listeners) rfl, h.lisLive s hs]; rfl
          have e2 : copies s p = [p.ev] := copies_none hstage
          simp only [List.flatMap_append, List.flatMap_cons, e1, e2]
        refine ⟨?_, ?_, ?_, h.obs, h.lisLive, h.lisUnreg, ?_, h.uniq, ?_⟩
        · intro hord s hs
          show ((c.subs s).pending ++ List.flatMap (copies s) _).foldl applyEv (c.subs s).rawView = c.store
          rw [hinfl s hs]
          exact h.view hord s hs
        · intro hord s hs hl
          show chainOK (c.subs s).rawView ((c.subs s).pending ++ List.flatMap (copies s) _)
          rw [hinfl s hs]
          exact h.chain hord s hs hl
        · intro hord s hs
          show linkOK (c.subs s).lossy (c.subs s).rawView ((c.subs s).pending ++ List.flatMap (copies s) _)
          rw [hinfl s hs]
          exact h.link hord s hs
        · intro q hq rem hrem s hs
          show rem.count s = 0
          have hq' : q ∈ c.pubs.take k ++ { p with stage := some c.listeners } :: post := hq
          rw [List.mem_append, List.mem_cons] at hq'
          rcases hq' with hq' | hq' | hq'
          · exact h.rem q (by rw [hsplit]; exact List.mem_append_left _ hq') rem hrem s hs
          · rw [hq'] at hrem
            simp at hrem
            rw [← hrem]
            exact h.lisUnreg s hs
          · exact h.rem q (by rw [hsplit]; exact List.mem_append_right _ (List.mem_cons_of_mem _ hq')) rem hrem s hs
        · intro s hs k' hk1 hk2
          show k' ∈ (c.subs s).got ∨ k' ∈ (List.flatMap (copies s) _).map (·.seq)
          rw [hinfl s hs]
          exact h.nomiss s hs k' hk1 hk2

end ScVerif.C03
