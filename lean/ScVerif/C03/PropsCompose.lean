import ScVerif.C03.Compose
import ScVerif.C03.Props
/-!
# C03 — a stream COMPOSED from a `Collection.Pull` (openclosepb `Model.PullPositions`) converges to `Get`

The adapter of `ScVerif.C03.Compose` folds the inner subscription's events (seed first) into a map and sends the
composition of the whole map.  The caller's view is the LAST message.  Theorems (for every `compose` function of the
map: sort + derived preset + response filter, every inner stream, both values of the caller's updates-only flag):

* `C03_composed_tracks_view`: the map is the fold of every change of the inner stream, and once a change that must be
  announced has been processed (any update; the last seed value for a caller that wants the current value; the empty
  collection for such a caller) the message sent last is the composition of that fold — after every later change too.
* `C03_composed_seed_phase`: while only seed values arrive nothing is sent; the last seed value produces exactly one
  message, the whole seed, for a caller that wants it and nothing for an updates-only caller.
* `C03_composed_no_stutter`: no message equals the one sent before it, and `last` is the message sent last.
* `C03_composed_converges`: composed with `C03_converges_partial`: in every ordered run, at quiescence, for a live
  SEEDED inner subscriber with a drained stage and no mask, once an update has been received the message sent last is
  `compose store` = what `GetPositions` composes — whatever the caller's own updates-only flag.
* `C03_composed_inner_seed_needed`: the variant that forwards the caller's updates-only flag to the inner `Pull`
  (no seed events) ends with a message that is NOT the composition of the store (witness).
-/
namespace ScVerif.C03.Compose
open ScVerif.C02 (setAt)
open ScVerif.C03

variable {M P : Type}

theorem C03_composed_tracks_view [DecidableEq P] (compose : (Nat → Option M) → P) (uo emp : Bool)
    (cs : List (Chg M)) :
    let st : St M P := runAd compose uo emp cs
    st.all = cs.foldl applyChg (fun _ => none) ∧
    (((emp && !uo) || cs.any (trigger uo)) = true →
      st.last = some (compose (cs.foldl applyChg (fun _ => none)))) := by
  intro st
  have hall : st.all = cs.foldl applyChg (fun _ => none) := by
    show (runFrom compose uo (init compose uo emp) cs).all = _
    rw [runFrom_all, init_all]
  refine ⟨hall, fun h => ?_⟩
  have ht : Tracks compose st := by
    apply runFrom_tracks
    simp only [Bool.or_eq_true] at h
    rcases h with h | h
    · left
      unfold init; simp only [h, if_true]
      exact ⟨rfl, rfl⟩
    · exact Or.inr h
  rw [← hall]; exact ht.2

theorem C03_composed_seed_phase [DecidableEq P] (compose : (Nat → Option M) → P) (uo : Bool)
    (pre : List (Chg M)) (c : Chg M)
    (hpre : ∀ x ∈ pre, x.seed = true ∧ x.lastSeed = false) (hc : c.seed = true) :
    (runAd compose uo false pre : St M P).out = [] ∧
    (runAd compose uo false (pre ++ [c]) : St M P).out =
      (if c.lastSeed && !uo then [compose ((pre ++ [c]).foldl applyChg (fun _ => none))] else []) := by
  have key : ∀ (l : List (Chg M)) (st : St M P), (∀ x ∈ l, x.seed = true ∧ x.lastSeed = false) →
      st.seenAll = false → Silent st →
      (runFrom compose uo st l).seenAll = false ∧ Silent (runFrom compose uo st l) := by
    intro l
    induction l with
    | nil => intro st _ hs hq; exact ⟨hs, hq⟩
    | cons a l ih =>
      intro st hl hs hq
      simp only [runFrom, List.foldl_cons]
      have ha := hl a (List.mem_cons_self)
      have hstep : stepAd compose uo st a = { st with all := applyChg st.all a } := by
        unfold stepAd; simp [hs, ha.1, ha.2]
      apply ih
      · intro x hx; exact hl x (List.mem_cons_of_mem _ hx)
      · rw [hstep]; exact hs
      · rw [hstep]; exact hq
  have h0 : (init compose uo false : St M P) = ⟨fun _ => none, false, none, []⟩ := by
    unfold init; simp
  have hp := key pre (init compose uo false) hpre (by rw [h0]) (by rw [h0]; exact ⟨rfl, rfl⟩)
  refine ⟨hp.2.2, ?_⟩
  show (runFrom compose uo (init compose uo false) (pre ++ [c])).out = _
  simp only [runFrom, List.foldl_append, List.foldl_cons, List.foldl_nil]
  have hall := runFrom_all compose uo pre (init compose uo false : St M P)
  rw [init_all] at hall
  simp only [runFrom] at hp hall
  generalize List.foldl (stepAd compose uo) (init compose uo false) pre = st at hp hall
  unfold stepAd
  simp only [hp.1, hc, Bool.not_true, Bool.or_self, Bool.false_or]
  split
  · unfold emit
    simp only [hp.2.1, hp.2.2, hall, List.nil_append]
    simp
  · exact hp.2.2

theorem C03_composed_no_stutter [DecidableEq P] (compose : (Nat → Option M) → P) (uo emp : Bool)
    (cs : List (Chg M)) :
    let st : St M P := runAd compose uo emp cs
    st.out.getLast? = st.last ∧ stutterFree st.out = true :=
  runFrom_outInv compose uo cs _ (init_outInv compose uo emp)

theorem C03_composed_converges [DecidableEq M] [DecidableEq P] (compose : (Nat → Option M) → P)
    (s₀ : Nat → Option M) (progs : Nat → List (WOp M)) (opts : Nat → SubOpts M)
    (sched : List Act) (hord : ordered (initCfg s₀ progs opts) sched = true)
    (s : Nat) (uo emp : Bool) (seeds : List (Chg M)) :
    let c : Cfg M := run (initCfg s₀ progs opts) sched
    c.quiescent = true → (c.subs s).live = true → (c.subs s).pending = [] →
    (∀ x, (c.subs s).mask x = x) →
    seeds.foldl applyChg (fun _ => none) = (c.subs s).base →
    (c.subs s).evs ≠ [] →
    (runAd compose uo emp (seeds ++ (c.subs s).evs.map ofEvent) : St M P).last = some (compose c.store) := by
  intro c hq hlive hpend hmask hseeds hevs
  have hconv := (C03_converges_partial s₀ progs opts sched hord).2 hq s hlive hpend
  have hraw : (c.subs s).rawView = c.store := by
    funext i
    have := congrFun hconv i
    simp only [Sub.view] at this
    have hid : ∀ o : Option M, o.map (c.subs s).mask = o := by
      intro o; cases o with
      | none => rfl
      | some x => simp [hmask x]
    rw [hid, hid] at this
    exact this
  have hfold : (seeds ++ (c.subs s).evs.map ofEvent).foldl applyChg (fun _ => none) = c.store := by
    rw [List.foldl_append, hseeds, ← hraw]
    unfold Sub.rawView
    generalize (c.subs s).base = b
    induction (c.subs s).evs generalizing b with
    | nil => rfl
    | cons e es ih => simp only [List.map_cons, List.foldl_cons]; exact ih _
  have htr := (C03_composed_tracks_view (P := P) compose uo emp (seeds ++ (c.subs s).evs.map ofEvent)).2
  rw [hfold] at htr
  apply htr
  have : ((c.subs s).evs.map ofEvent).any (trigger uo) = true := by
    cases hE : (c.subs s).evs with
    | nil => exact absurd hE hevs
    | cons e es => simp [trigger, ofEvent]
  simp only [List.any_append, this, Bool.or_true]

/-! ### the seed events are needed: forwarding the caller's updates-only flag to the inner `Pull` is wrong -/

/-- two stored items, then an update of the first -/
def twoSeedsOneUpdate : List (Chg Int) := [⟨0, some 1, true, false⟩, ⟨1, some 2, true, true⟩, ⟨0, some 5, false, false⟩]

/-- the composed message of the examples: the two items side by side -/
def pairOf (v : Nat → Option Int) : Option Int × Option Int := (v 0, v 1)

theorem C03_composed_inner_seed_needed :
    (runAd pairOf true false twoSeedsOneUpdate).last = some (some 5, some 2) ∧
    (runAdNoSeeds pairOf true false twoSeedsOneUpdate).last = some (some 5, none) ∧
    pairOf (twoSeedsOneUpdate.foldl applyChg (fun _ => none)) = (some 5, some 2) := by
  decide

/-- non-vacuity: an updates-only caller is sent nothing for the seed and one message, the whole map, for the update;
a caller that wants the current value gets the seed as ONE message first -/
example : (runAd pairOf true false twoSeedsOneUpdate).out = [(some 5, some 2)] ∧
    (runAd pairOf false false twoSeedsOneUpdate).out = [(some 1, some 2), (some 5, some 2)] ∧
    (runAd pairOf false true ([] : List (Chg Int))).out = [(none, none)] := by decide

end ScVerif.C03.Compose
