import ScVerif.C03.Model
/-!
# C03 — list lemmas: folds of events, the merge stage, copies of a publication
-/
set_option linter.unusedSectionVars false
set_option linter.unusedVariables false
namespace ScVerif.C03
open ScVerif.C02 (setAt setAt_same setAt_other)

variable {M : Type}

theorem copies_none {s : Nat} {p : Pub M} (h : p.stage = none) : copies s p = [p.ev] := by
  simp [copies, h]

theorem copies_staged {s : Nat} {p : Pub M} {rem : List Nat} (h : p.stage = some rem) :
    copies s p = List.replicate (rem.count s) p.ev := by
  simp [copies, h, List.filter_beq]

theorem pubs_split {c : Cfg M} {k : Nat} {p : Pub M} {post : List (Pub M)} (h : c.pubs.drop k = p :: post) :
    c.pubs = c.pubs.take k ++ p :: post := by
  rw [← h, List.take_append_drop]

theorem foldl_applyEv_stable (v : Nat → Option M) (l : List (Event M))
    (h : ∀ e, e ∈ l → v e.id = e.new) : l.foldl applyEv v = v := by
  induction l with
  | nil => rfl
  | cons e l ih =>
    have he : applyEv v e = v := by
      funext j
      simp only [applyEv, setAt]
      split
      · next hj => rw [hj]; exact (h e (List.mem_cons_self)).symm
      · rfl
    rw [List.foldl_cons, he]
    exact ih (fun e' he' => h e' (List.mem_cons_of_mem _ he'))

/-- the value of a fold at `j` depends only on the start value at `j` -/
theorem foldl_congr_at (P : List (Event M)) (j : Nat) :
    ∀ v w : Nat → Option M, v j = w j → (P.foldl applyEv v) j = (P.foldl applyEv w) j := by
  induction P with
  | nil => intro v w h; exact h
  | cons a P ih =>
    intro v w h
    simp only [List.foldl_cons]
    apply ih
    simp only [applyEv, setAt]
    split
    · rfl
    · exact h

theorem foldl_untouched (P : List (Event M)) (j : Nat) (h : ∀ e, e ∈ P → e.id ≠ j) :
    ∀ v : Nat → Option M, (P.foldl applyEv v) j = v j := by
  induction P with
  | nil => intro v; rfl
  | cons a P ih =>
    intro v
    simp only [List.foldl_cons]
    rw [ih (fun e he => h e (List.mem_cons_of_mem _ he))]
    exact setAt_other _ _ (Ne.symm (h a List.mem_cons_self))

def ids (P : List (Event M)) : List Nat := P.map (·.id)

theorem ids_mergeInto (P : List (Event M)) (e : Event M) (x : Nat) :
    x ∈ ids (mergeInto P e) → x ∈ ids P ∨ x = e.id := by
  induction P with
  | nil => intro h; simp [mergeInto, ids] at h; exact Or.inr h
  | cons a P ih =>
    intro h
    simp only [mergeInto] at h
    split at h
    · next heq =>
      split at h
      · exact Or.inl (by simp only [ids, List.map_cons, List.mem_cons]; exact Or.inr h)
      · simp only [ids, List.map_append, List.mem_append, List.map_cons, List.map_nil, List.mem_singleton] at h
        rcases h with h | h
        · exact Or.inl (by simp only [ids, List.map_cons, List.mem_cons]; exact Or.inr h)
        · exact Or.inr h
    · simp only [ids, List.map_cons, List.mem_cons] at h ⊢
      rcases h with h | h
      · exact Or.inl (Or.inl h)
      · rcases ih h with h' | h'
        · exact Or.inl (Or.inr h')
        · exact Or.inr h'

theorem nodup_mergeInto (P : List (Event M)) (e : Event M) (h : (ids P).Nodup) :
    (ids (mergeInto P e)).Nodup := by
  induction P with
  | nil => simp [mergeInto, ids]
  | cons a P ih =>
    simp only [ids, List.map_cons, List.nodup_cons] at h
    simp only [mergeInto]
    split
    · next heq =>
      split
      · exact h.2
      · simp only [ids, List.map_append, List.map_cons, List.map_nil]
        rw [List.nodup_append]
        refine ⟨h.2, by simp, ?_⟩
        intro x hx y hy
        simp at hy
        subst hy
        intro hxy
        rw [hxy, ← heq] at hx
        exact h.1 hx
    · next hne =>
      simp only [ids, List.map_cons, List.nodup_cons]
      refine ⟨?_, ih h.2⟩
      intro hmem
      rcases ids_mergeInto P e a.id hmem with h' | h'
      · exact h.1 h'
      · exact hne h'

/-- The merge stage preserves the fold: merging `e` into the pending changes has the effect of appending it,
provided the pending ids are distinct and a cancellation only happens when the consumer does not know the id. -/
theorem foldl_mergeInto (P : List (Event M)) (e : Event M) (hU : (ids P).Nodup) :
    ∀ v : Nat → Option M, (cancels P e = true → v e.id = none) →
      (mergeInto P e).foldl applyEv v = (P ++ [e]).foldl applyEv v := by
  induction P with
  | nil => intro v _; rfl
  | cons a P ih =>
    intro v hc
    simp only [ids, List.map_cons, List.nodup_cons] at hU
    simp only [mergeInto, cancels] at hc ⊢
    split
    · next heq =>
      rw [if_pos heq] at hc
      have hnot : ∀ x, x ∈ P → x.id ≠ e.id := by
        intro x hx hxe
        apply hU.1
        rw [heq, ← hxe]
        exact List.mem_map_of_mem hx
      split
      · next hcan =>
        -- ADD then REMOVE: both dropped
        have hv := hc hcan
        have hnone : e.new = none := by
          have := hcan
          simp only [Bool.and_eq_true, Option.isNone_iff_eq_none] at this
          exact this.2
        funext j
        simp only [List.cons_append, List.foldl_cons, List.foldl_append, List.foldl_nil, applyEv]
        by_cases hj : j = e.id
        · subst hj
          rw [setAt_same, hnone, foldl_untouched P _ hnot]
          exact hv
        · rw [setAt_other _ _ hj]
          apply foldl_congr_at
          rw [setAt_other _ _ (by rw [heq]; exact hj)]
      · funext j
        simp only [List.cons_append, List.foldl_cons, List.foldl_append, List.foldl_nil, applyEv]
        by_cases hj : j = e.id
        · subst hj; simp
        · rw [setAt_other _ _ hj, setAt_other _ _ hj]
          apply foldl_congr_at
          rw [setAt_other _ _ (by rw [heq]; exact hj)]
    · next hne =>
      rw [if_neg hne] at hc
      simp only [List.cons_append, List.foldl_cons]
      apply ih hU.2
      intro hcan
      have := hc hcan
      simp only [applyEv]
      rw [setAt_other _ _ (Ne.symm hne)]
      exact this

/-! ### Well-formed change streams: an ADD arrives only where the id is absent -/

def chainOK : (Nat → Option M) → List (Event M) → Prop
  | _, [] => True
  | v, e :: L => (e.isAdd = true → v e.id = none) ∧ chainOK (applyEv v e) L

theorem chainOK_append (A B : List (Event M)) :
    ∀ v : Nat → Option M, chainOK v (A ++ B) ↔ chainOK v A ∧ chainOK (A.foldl applyEv v) B := by
  induction A with
  | nil => intro v; simp [chainOK]
  | cons a A ih =>
    intro v
    simp only [List.cons_append, chainOK, List.foldl_cons, ih]
    constructor
    · rintro ⟨h1, h2, h3⟩; exact ⟨⟨h1, h2⟩, h3⟩
    · rintro ⟨⟨h1, h2⟩, h3⟩; exact ⟨h1, h2, h3⟩

theorem chainOK_congr (L : List (Event M)) :
    ∀ v w : Nat → Option M, (∀ x, x ∈ ids L → v x = w x) → chainOK v L → chainOK w L := by
  induction L with
  | nil => intro v w _ _; trivial
  | cons e L ih =>
    intro v w hvw h
    simp only [chainOK] at h ⊢
    refine ⟨?_, ?_⟩
    · intro hadd
      rw [← hvw e.id (by simp [ids])]
      exact h.1 hadd
    · apply ih (applyEv v e) (applyEv w e) ?_ h.2
      intro x hx
      simp only [applyEv, setAt]
      split
      · rfl
      · exact hvw x (by simp only [ids, List.map_cons, List.mem_cons]; exact Or.inr hx)

/-- a cancellation in the merge stage only happens where the consumer does not know the id -/
theorem cancels_safe (P : List (Event M)) (e : Event M) :
    ∀ v : Nat → Option M, chainOK v P → cancels P e = true → v e.id = none := by
  induction P with
  | nil => intro v _ h; simp [cancels] at h
  | cons a P ih =>
    intro v hc h
    simp only [chainOK] at hc
    simp only [cancels] at h
    split at h
    · next heq =>
      simp only [Bool.and_eq_true] at h
      rw [← heq]
      exact hc.1 h.1
    · next hne =>
      have := ih (applyEv v a) hc.2 h
      simp only [applyEv] at this
      rwa [setAt_other _ _ (Ne.symm hne)] at this

theorem chainOK_mergeInto (P : List (Event M)) (e : Event M) (hU : (ids P).Nodup) :
    ∀ v : Nat → Option M, chainOK v (P ++ [e]) → chainOK v (mergeInto P e) := by
  induction P with
  | nil => intro v h; exact h
  | cons a P ih =>
    intro v h
    simp only [ids, List.map_cons, List.nodup_cons] at hU
    simp only [List.cons_append, chainOK] at h
    simp only [mergeInto]
    split
    · next heq =>
      have hnot : ∀ x, x ∈ ids P → v x = applyEv v a x := by
        intro x hx
        simp only [applyEv]
        rw [setAt_other]
        intro hxa
        rw [hxa] at hx
        exact hU.1 hx
      have hP : chainOK v P := by
        have := ((chainOK_append P [e] _).mp h.2).1
        exact chainOK_congr P _ _ (fun x hx => (hnot x hx).symm) this
      split
      · exact hP
      · rw [chainOK_append]
        refine ⟨hP, ?_⟩
        simp only [chainOK, and_true]
        intro hadd
        have hnote : ∀ x, x ∈ P → x.id ≠ e.id := by
          intro x hx hxe
          apply hU.1
          rw [heq, ← hxe]
          exact List.mem_map_of_mem hx
        rw [foldl_untouched P _ hnote, ← heq]
        exact h.1 hadd
    · next hne =>
      simp only [chainOK]
      exact ⟨h.1, ih hU.2 _ h.2⟩

theorem view_snoc (sb : Sub M) (e : Event M) :
    ({ sb with evs := sb.evs ++ [e] } : Sub M).rawView = applyEv sb.rawView e := by
  simp [Sub.rawView, List.foldl_append]

theorem flatMap_copies_nil {s : Nat} {l : List (Pub M)}
    (h : l.all (fun q => (copies s q).isEmpty) = true) : l.flatMap (copies s) = [] := by
  induction l with
  | nil => rfl
  | cons q l ih =>
    simp only [List.all_cons, Bool.and_eq_true] at h
    rw [List.flatMap_cons, ih h.2, List.isEmpty_iff.mp h.1]; rfl

theorem mem_inflight {c : Cfg M} {s : Nat} {e : Event M} :
    e ∈ inflight c s ↔ ∃ p, p ∈ c.pubs ∧ e ∈ copies s p := by
  simp [inflight, List.mem_flatMap]

end ScVerif.C03
