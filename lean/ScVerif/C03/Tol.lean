import ScVerif.C03.Equiv
/-!
# C03 — tolerance equivalences and the compare-with-previous variant of `Value.Pull`'s loop

`tolCmp k`: `cmp.Equal(cmp.FloatValueApprox(0, k))` read on integer messages (absent ~ absent only).
`dedupPrev`: the loop `prev := last; last = change.Value; if equivalent(prev, change.Value) { continue }` — each change is
compared with the value it REPLACED (what `Collection.Pull` does with `OldValue`), not with the value sent last.
-/
set_option linter.unusedSectionVars false
set_option linter.unusedVariables false
namespace ScVerif.C03
open ScVerif.C02 (setAt setAt_same setAt_other)

/-- a tolerance on integer messages: both absent, or both present and at most `k` apart -/
def tolCmp (k : Nat) : Option Int → Option Int → Bool
  | none, none => true
  | some x, some y => decide ((x - y).natAbs ≤ k)
  | _, _ => false

theorem tolCmp_refl (k : Nat) : ∀ a, tolCmp k a a = true := by
  intro a; cases a <;> simp [tolCmp]

/-- `cmp.FloatValueApprox(fraction, margin)` on integers, `fraction = num / den` (`den > 0`):
`|x - y| ≤ max(margin, fraction * min(|x|, |y|))`, both sides multiplied by `den`.  (The distance is between the VALUES,
the relative margin scales with the smaller MAGNITUDE.) -/
def approxInt (num den margin : Nat) (x y : Int) : Bool :=
  decide (den * (x - y).natAbs ≤ max (den * margin) (num * min x.natAbs y.natAbs))

/-- the same comparer as `cmp.Equal` applies it to a proto3 scalar field: `equalMessage` first compares which fields
are populated, and a field at zero is not -/
def approxField (num den margin : Nat) (x y : Int) : Bool :=
  if x = 0 ∨ y = 0 then x == y else approxInt num den margin x y

theorem approxInt_refl (num den margin : Nat) (x : Int) : approxInt num den margin x x = true := by
  simp [approxInt]

theorem approxInt_symm (num den margin : Nat) (x y : Int) : approxInt num den margin x y = approxInt num den margin y x := by
  have h1 : (x - y).natAbs = (y - x).natAbs := by omega
  simp only [approxInt, h1, Nat.min_comm]

theorem tolCmp_eq_approxInt (k : Nat) (x y : Int) : tolCmp k (some x) (some y) = approxInt 0 1 k x y := by
  simp [tolCmp, approxInt]

theorem approxInt_neg (margin : Nat) (x : Int) : approxInt 0 1 margin x (-x) = true ↔ 2 * x.natAbs ≤ margin := by
  simp only [approxInt, decide_eq_true_eq]
  omega

variable {M : Type}

/-- the variant loop: compare each change with the previous VALUE of the resource -/
def dedupPrev (cmp : Option M → Option M → Bool) : Option M → List (Event M) → List (Event M)
  | _, [] => []
  | prev, e :: L => if cmp prev e.new then dedupPrev cmp e.new L else e :: dedupPrev cmp e.new L

theorem dedupPrev_fold (cmp : Option M → Option M → Bool) (hrefl : ∀ a, cmp a a = true)
    (htrans : ∀ a b c, cmp a b = true → cmp b c = true → cmp a c = true) (j : Nat) (L : List (Event M)) :
    (∀ e, e ∈ L → e.id = j) →
    ∀ (prev : Option M) (u v : Nat → Option M), v j = prev → cmp (u j) (v j) = true →
      cmp ((dedupPrev cmp prev L).foldl applyEv u j) (L.foldl applyEv v j) = true := by
  induction L with
  | nil => intro _ prev u v _ h; exact h
  | cons e L ih =>
    intro hid prev u v hprev hrel
    have hej : e.id = j := hid e List.mem_cons_self
    have hid' : ∀ e', e' ∈ L → e'.id = j := fun e' he' => hid e' (List.mem_cons_of_mem _ he')
    simp only [dedupPrev, List.foldl_cons]
    cases hc : cmp prev e.new with
    | true =>
      simp only [if_true]
      apply ih hid' e.new u (applyEv v e)
      · simp only [applyEv, setAt, hej, if_true]
      · simp only [applyEv, setAt, hej, if_true]
        rw [hprev] at hrel
        exact htrans _ _ _ hrel hc
    | false =>
      simp only [Bool.false_eq_true, if_false, List.foldl_cons]
      apply ih hid' e.new (applyEv u e) (applyEv v e)
      · simp only [applyEv, setAt, hej, if_true]
      · simp only [applyEv, setAt, hej, if_true]
        exact hrefl _

/-- no value of the list is equivalent to the one before it (`p` before the first) -/
def noAdjEquiv (cmp : Option M → Option M → Bool) : Option M → List (Option M) → Prop
  | _, [] => True
  | p, x :: xs => cmp p x = false ∧ noAdjEquiv cmp x xs

theorem dedupVal_noAdjEquiv (cmp : Option M → Option M → Bool) (L : List (Event M)) :
    ∀ last : Option M, noAdjEquiv cmp last ((dedupVal cmp last L).map (·.new)) := by
  induction L with
  | nil => intro last; simp [dedupVal, noAdjEquiv]
  | cons e L ih =>
    intro last
    simp only [dedupVal]
    cases hc : cmp last e.new with
    | true => simpa using ih last
    | false =>
      simp only [Bool.false_eq_true, if_false, List.map_cons, noAdjEquiv]
      exact ⟨hc, ih e.new⟩

/-- the ramp `x+1, …, x+n` as a linked stream of changes of id 0 -/
def rampEvs (x : Int) : Nat → List (Event Int)
  | 0 => []
  | n + 1 => ⟨0, some x, some (x + 1), false, 0⟩ :: rampEvs (x + 1) n

theorem rampEvs_ids (x : Int) (n : Nat) : ∀ e, e ∈ rampEvs x n → e.id = 0 := by
  induction n generalizing x with
  | zero => intro e he; simp [rampEvs] at he
  | succ n ih =>
    intro e he
    simp only [rampEvs, List.mem_cons] at he
    rcases he with h | h
    · rw [h]
    · exact ih _ e h

theorem rampEvs_linked (n : Nat) : ∀ (x : Int) (v : Nat → Option Int), v 0 = some x → linkOK true v (rampEvs x n) := by
  induction n with
  | zero => intro x v _; simp [rampEvs, linkOK]
  | succ n ih =>
    intro x v hv
    simp only [rampEvs, linkOK]
    refine ⟨Or.inl hv, ih (x + 1) _ ?_⟩
    simp [applyEv, setAt]

theorem rampEvs_dedupPrev (k : Nat) (hk : 1 ≤ k) (n : Nat) : ∀ x : Int, dedupPrev (tolCmp k) (some x) (rampEvs x n) = [] := by
  induction n with
  | zero => intro x; simp [rampEvs, dedupPrev]
  | succ n ih =>
    intro x
    have h : tolCmp k (some x) (some (x + 1)) = true := by
      simp only [tolCmp, decide_eq_true_eq]
      omega
    simp only [rampEvs, dedupPrev, h, if_true]
    exact ih (x + 1)

theorem rampEvs_fold (n : Nat) : ∀ (x : Int) (v : Nat → Option Int), v 0 = some x →
    (rampEvs x n).foldl applyEv v 0 = some (x + n) := by
  induction n with
  | zero => intro x v hv; simpa [rampEvs] using hv
  | succ n ih =>
    intro x v hv
    simp only [rampEvs, List.foldl_cons]
    rw [ih (x + 1) _ (by simp [applyEv, setAt])]
    congr 1
    omega

end ScVerif.C03
