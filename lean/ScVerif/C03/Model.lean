import ScVerif.C02.Model
/-!
# C03 — model of writers publishing to subscribers of a `resource.Value` / `resource.Collection`

Follows `/repo/pkg/resource/{value,collection,backpressure}.go`, `/repo/internal/minibus/{bus,util}.go`:

* a write = `commit` (one atomic section under `mu.Lock`: by C02 every successful write takes effect
  atomically at its commit, a refused or aborted write has no effect and publishes nothing) ▸ `snap`
  (`Bus.Send` copies the listener slice) ▸ `deliver` to each listener of the copy in turn (`listener.send`,
  a channel rendezvous) ▸ `Bus.collect` if a listener of the copy was found dead (re-reads `b.listeners` under
  the lock and keeps the live ones).  `Value.set` / `Collection.Update` publish AFTER releasing the lock;
  `Collection.Delete` commits, snapshots and delivers while HOLDING the write lock.
* `subscribe` (`onUpdate`): under `mu.RLock` take the snapshot of the contents (unless updates-only) and
  register the listener — one atomic step with respect to commits.
* `cancel`: the subscriber's context is cancelled and `listener.stop` has closed its channel: from then on a
  `listener.send` to it returns "not active" without delivering.
* between the bus and the consumer sits one stage (`pending`): with backpressure the forwarder goroutine holds
  at most ONE event in hand and the bus blocks until it is free; without, `mergeCollectionExcess` /
  `DropExcess` always accept and MERGE into one pending change per id, FIFO by id, cancelling ADD+REMOVE.
  `recv` is the consumer taking the next event: ANY consumer pace is a schedule.
* the forwarder filters every event (and the seed) through the subscriber's read mask: the observed view is
  the projection of the raw view.

* the forwarder goroutine of `Collection.Pull` (`fwdEv`, `seedView`, `Sub.obs`, `Sub.obsView`): seeds are the
  included stored items through the mask; every change goes through `include` (judging the STORED old / new values)
  and THEN the read mask; `Sub.pullID`: `PullID` as the stream of one id up to its first REMOVE.

Publications in flight are kept in commit order in `pubs`.  Ghost: `seq`, `subAt`, `got`.
-/
namespace ScVerif.C03
open ScVerif.C02 (setAt setAt_same setAt_other)

structure Event (M : Type) where
  id : Nat
  /-- `CollectionChange.OldValue`: the stored value before the commit (`none`: the id was absent, an ADD) -/
  old : Option M
  /-- `some v`: ADD/UPDATE/REPLACE carrying `v`; `none`: REMOVE -/
  new : Option M
  /-- change type ADD (the only kind `mergeChanges` cancels against a following REMOVE) -/
  isAdd : Bool
  /-- ghost: index of the commit that produced it -/
  seq : Nat

def applyEv {M : Type} (v : Nat → Option M) (e : Event M) : Nat → Option M := setAt v e.id e.new

/-- A write as seen from the store: what it does at its commit point.
`upd id f`: with current value `cur` (none = absent) commit `f cur`, or nothing if `f cur = none`
(precondition failed / lost the race).  `del id p`: remove the item if present and `p` holds. -/
inductive WOp (M : Type)
  | upd (id : Nat) (f : Option M → Option M)
  | del (id : Nat) (p : M → Bool)

structure Pub (M : Type) where
  owner : Nat
  ev : Event M
  /-- `none`: committed, `Bus.Send` not started; `some rem`: listener copy taken, `rem` still to be served -/
  stage : Option (List Nat)
  /-- published while holding the write lock (Delete) -/
  locked : Bool
  /-- a listener of the copy was found dead: `collect` runs at the end of this Send -/
  gc : Bool

structure Writer (M : Type) where
  prog : List (WOp M)
  busy : Bool

structure Sub (M : Type) where
  registered : Bool
  cancelled : Bool
  updatesOnly : Bool
  /-- `WithBackpressure(false)` (the default) -/
  lossy : Bool
  /-- read mask, as the projection the forwarder applies to every message -/
  mask : M → M
  /-- `WithInclude` (`none`: no include function: `include` returns the change as it is) -/
  incl : Option (Nat → M → Bool)
  /-- contents at the subscribe step: the seed (for an updates-only subscriber: ghost, what it must already know) -/
  base : Nat → Option M
  /-- events the consumer has received, in order (before the mask) -/
  evs : List (Event M)
  /-- the stage between bus and consumer: forwarder in hand (backpressure) or the merger's pending changes -/
  pending : List (Event M)
  /-- ghost: seqs the bus has handed to this subscriber's stage -/
  got : List Nat
  /-- ghost: number of commits before the subscribe step -/
  subAt : Nat

def Sub.rawView {M : Type} (s : Sub M) : Nat → Option M := s.evs.foldl applyEv s.base

/-- what the consumer sees: every message passed through its read mask -/
def Sub.view {M : Type} (s : Sub M) : Nat → Option M := fun i => (s.rawView i).map s.mask

def Sub.live {M : Type} (s : Sub M) : Bool := s.registered && !s.cancelled

/-! ### The forwarder goroutine of `Collection.Pull`: include, then read mask

Seeds: `itemSlice` drops the stored items the include function excludes, then every seed change is filtered
through the read mask.  Events: `change.include(readConfig.Include)` judges the STORED old / new values
(an absent value is never included), turns a change that moves an item into / out of the included set into an
ADD / REMOVE and drops a change of an item that stays excluded; only then `change.filter(filter)` applies the
read mask.  `Value.Pull` has no include function (`incl = none`). -/

/-- is the (possibly absent) stored value included?  `includeFunc == nil`: everything that exists -/
def inclOpt {M : Type} (incl : Option (Nat → M → Bool)) (i : Nat) : Option M → Bool
  | none => false
  | some v => match incl with
    | none => true
    | some f => f i v

/-- `(*CollectionChange).include` followed by `(*CollectionChange).filter`, as the event loop of `Pull` does -/
def fwdEv {M : Type} (incl : Option (Nat → M → Bool)) (mask : M → M) (e : Event M) : Option (Event M) :=
  match incl with
  | none => some { e with old := e.old.map mask, new := e.new.map mask }
  | some _ =>
    let oi := inclOpt incl e.id e.old
    let ni := inclOpt incl e.id e.new
    if oi = ni then
      (if ni then some { e with old := e.old.map mask, new := e.new.map mask } else none)
    else if ni then some { e with old := none, new := e.new.map mask, isAdd := true }   -- treat this like an Add
    else some { e with old := e.old.map mask, new := none, isAdd := false }              -- treat this like a remove

/-- the seed values as the consumer receives them: included items only, each through the read mask -/
def seedView {M : Type} (incl : Option (Nat → M → Bool)) (mask : M → M) (v : Nat → Option M) : Nat → Option M :=
  fun i => ((v i).filter (fun x => inclOpt incl i (some x))).map mask

/-- the changes the consumer receives after the seed: every event taken from the stage, through the forwarder -/
def Sub.obs {M : Type} (s : Sub M) : List (Event M) := s.evs.filterMap (fwdEv s.incl s.mask)

/-- the consumer's folded view: received changes applied in order to the received seed -/
def Sub.obsView {M : Type} (s : Sub M) : Nat → Option M := s.obs.foldl applyEv (seedView s.incl s.mask s.base)

/-- `Collection.PullID id`: the values delivered on the stream of one item — the item's seed (if it is included),
then the new value of every change of this id, up to (not including) the first REMOVE, which ends the stream -/
def Sub.pullID {M : Type} (s : Sub M) (id : Nat) : List M :=
  ((seedView s.incl s.mask s.base id).toList ++
    ((s.obs.filter (fun e => e.id == id)).takeWhile (fun e => e.new.isSome)).filterMap (·.new))

/-- the PullID stream has ended: a REMOVE of the item was received -/
def Sub.pullIDEnded {M : Type} (s : Sub M) (id : Nat) : Bool :=
  (s.obs.filter (fun e => e.id == id)).any (fun e => e.new.isNone)

structure Cfg (M : Type) where
  store : Nat → Option M
  nextSeq : Nat
  /-- a Delete holding `mu.Lock` while it publishes -/
  lock : Option Nat
  /-- `Bus.listeners`, in registration order -/
  listeners : List Nat
  pubs : List (Pub M)
  writers : Nat → Writer M
  subs : Nat → Sub M

inductive Act
  | commit (t : Nat)
  | snap (k : Nat)
  | deliver (k : Nat)
  | sub (s : Nat)
  | cancel (s : Nat)
  | recv (s : Nat)
  deriving DecidableEq, Repr

variable {M : Type}

/-- `mergeCollectionExcess` receiving `e`: the pending change of the same id (if any) is removed from the
queue and the merged change pushed at the back; ADD followed by REMOVE cancels; a change merged onto a
pending ADD stays an ADD (`mergeChanges`). -/
def mergeInto : List (Event M) → Event M → List (Event M)
  | [], e => [e]
  | a :: P, e =>
    if a.id = e.id then
      (if a.isAdd && e.new.isNone then P else P ++ [{ e with isAdd := a.isAdd, old := a.old }])
    else a :: mergeInto P e

def Cfg.popOp (c : Cfg M) (t : Nat) (rest : List (WOp M)) (busy : Bool) : Cfg M :=
  { c with writers := setAt c.writers t ⟨rest, busy⟩ }

/-- the publication is over: `collect` if a dead listener was met, the writer may go on, a Delete releases the lock -/
def Cfg.finishPub (c : Cfg M) (p : Pub M) (pubs' : List (Pub M)) : Cfg M :=
  { c with pubs := pubs'
           writers := setAt c.writers p.owner { c.writers p.owner with busy := false }
           lock := if p.locked then none else c.lock
           listeners := if p.gc then c.listeners.filter (fun s => !(c.subs s).cancelled) else c.listeners }

def stepCommit (c : Cfg M) (t : Nat) : Cfg M :=
  let w := c.writers t
  if w.busy || c.lock.isSome then c else
  match w.prog with
  | [] => c
  | .upd id f :: rest =>
    match f (c.store id) with
    | none => c.popOp t rest false
    | some v =>
      let e : Event M := ⟨id, c.store id, some v, (c.store id).isNone, c.nextSeq⟩
      { c.popOp t rest true with
        store := applyEv c.store e, nextSeq := c.nextSeq + 1,
        pubs := c.pubs ++ [⟨t, e, none, false, false⟩] }
  | .del id p :: rest =>
    match c.store id with
    | none => c.popOp t rest false
    | some b =>
      if p b then
        let e : Event M := ⟨id, some b, none, false, c.nextSeq⟩
        if c.listeners.isEmpty then
          { c.popOp t rest false with store := applyEv c.store e, nextSeq := c.nextSeq + 1 }
        else
          { c.popOp t rest true with
            store := applyEv c.store e, nextSeq := c.nextSeq + 1, lock := some t,
            pubs := c.pubs ++ [⟨t, e, some c.listeners, true, false⟩] }
      else c.popOp t rest false

def stepSnap (c : Cfg M) (k : Nat) : Cfg M :=
  match c.pubs.drop k with
  | [] => c
  | p :: post =>
    match p.stage with
    | some _ => c
    | none =>
      if c.listeners.isEmpty then c.finishPub p (c.pubs.take k ++ post)
      else { c with pubs := c.pubs.take k ++ { p with stage := some c.listeners } :: post }

/-- hand `e` to subscriber `sb`'s stage -/
def Sub.accept (sb : Sub M) (e : Event M) : Sub M :=
  { sb with pending := if sb.lossy then mergeInto sb.pending e else [e], got := sb.got ++ [e.seq] }

def stepDeliver (c : Cfg M) (k : Nat) : Cfg M :=
  match c.pubs.drop k with
  | [] => c
  | p :: post =>
    match p.stage with
    | none => c
    | some [] => c
    | some (s :: rem) =>
      let sb := c.subs s
      if !sb.cancelled && !sb.lossy && !sb.pending.isEmpty then c   -- the forwarder is busy: the bus blocks
      else
        let p' : Pub M := { p with gc := p.gc || sb.cancelled }
        let c' : Cfg M := { c with subs := if sb.cancelled then c.subs else setAt c.subs s (sb.accept p.ev) }
        if rem.isEmpty then c'.finishPub p' (c.pubs.take k ++ post)
        else { c' with pubs := c.pubs.take k ++ { p' with stage := some rem } :: post }

def stepSub (c : Cfg M) (s : Nat) : Cfg M :=
  let sb := c.subs s
  if sb.registered || (!sb.updatesOnly && c.lock.isSome) then c else
  { c with subs := setAt c.subs s
             { sb with registered := true, base := c.store, evs := [], pending := [], got := [], subAt := c.nextSeq }
           listeners := c.listeners ++ [s] }

def stepCancel (c : Cfg M) (s : Nat) : Cfg M :=
  let sb := c.subs s
  if sb.registered && !sb.cancelled then { c with subs := setAt c.subs s { sb with cancelled := true } } else c

/-- the consumer takes the next event out of the stage -/
def stepRecv (c : Cfg M) (s : Nat) : Cfg M :=
  let sb := c.subs s
  match sb.pending with
  | [] => c
  | e :: rest => { c with subs := setAt c.subs s { sb with evs := sb.evs ++ [e], pending := rest } }

def step (c : Cfg M) : Act → Cfg M
  | .commit t => stepCommit c t
  | .snap k => stepSnap c k
  | .deliver k => stepDeliver c k
  | .sub s => stepSub c s
  | .cancel s => stepCancel c s
  | .recv s => stepRecv c s

def run (c : Cfg M) (sched : List Act) : Cfg M := sched.foldl step c

/-- subscriber options: updates-only, lossy, read mask, include function -/
structure SubOpts (M : Type) where
  updatesOnly : Bool
  lossy : Bool
  mask : M → M
  incl : Option (Nat → M → Bool) := none

def initCfg (s₀ : Nat → Option M) (progs : Nat → List (WOp M)) (opts : Nat → SubOpts M) : Cfg M :=
  { store := s₀, nextSeq := 0, lock := none, listeners := [], pubs := []
    writers := fun t => ⟨progs t, false⟩
    subs := fun s => ⟨false, false, (opts s).updatesOnly, (opts s).lossy, (opts s).mask, (opts s).incl,
      fun _ => none, [], [], [], 0⟩ }

/-- the copies of a publication's event still to reach subscriber `s` (given `s` is live) -/
def copies (s : Nat) (p : Pub M) : List (Event M) :=
  match p.stage with
  | none => [p.ev]
  | some rem => (rem.filter (· == s)).map (fun _ => p.ev)

def inflight (c : Cfg M) (s : Nat) : List (Event M) := c.pubs.flatMap (copies s)

/-- nothing is in flight: every committed change has been handed to every live subscriber's stage -/
def Cfg.quiescent (c : Cfg M) : Bool := c.pubs.isEmpty

/-- would `mergeInto P e` cancel a pending ADD against the REMOVE `e`? -/
def cancels : List (Event M) → Event M → Bool
  | [], _ => false
  | a :: P, e => if a.id = e.id then a.isAdd && e.new.isNone else cancels P e

/-! ### "Publications of one id delivered in commit order" as a condition on the steps of a run

* a delivery to a live subscriber `s` is the one of the EARLIEST commit OF THAT ID still owed to `s`
  (publications of different ids may reach it in any order);
* when a subscriber registers, every committed publication whose `Bus.Send` has not started yet still
  carries the current value of its id (it has not been overtaken by a later commit's publication); and a
  LOSSY subscriber registers only when no committed publication is still waiting for its `Bus.Send` at all
  (its merge stage would treat the duplicate of the seed as news).
All hold trivially when publications do not overlap other commits or subscribes. -/
def okStep [DecidableEq M] (c : Cfg M) : Act → Bool
  | .deliver k =>
    match c.pubs.drop k with
    | [] => true
    | p :: _ =>
      match p.stage with
      | some (s :: _) =>
        !(c.subs s).live || (c.pubs.take k).all (fun q => (copies s q).all (fun a => a.id != p.ev.id))
      | _ => true
  | .sub s =>
    c.pubs.all (fun p => p.stage.isSome || (!(c.subs s).lossy && decide (c.store p.ev.id = p.ev.new)))
  | _ => true

def ordered [DecidableEq M] (c : Cfg M) : List Act → Bool
  | [] => true
  | a :: rest => okStep c a && ordered (step c a) rest

end ScVerif.C03
