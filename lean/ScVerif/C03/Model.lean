import ScVerif.C02.Model
/-!
# C03 — model of writers publishing to subscribers of a `resource.Value` / `resource.Collection`

Follows `/repo/pkg/resource/{value,collection}.go` and `/repo/internal/minibus/bus.go`:

* a write = `commit` (one atomic section under `mu.Lock`: by C02 every successful write takes effect
  atomically at its commit, a refused or aborted write has no effect and publishes nothing) ▸ `snap`
  (`Bus.Send` copies the listener slice) ▸ `deliver` to each listener of the copy in turn (`listener.send`,
  a channel rendezvous).  `Value.set` / `Collection.Update` run `snap` and `deliver` AFTER releasing the lock;
  `Collection.Delete` commits, snapshots and delivers while HOLDING the write lock.
* `subscribe` (`onUpdate`): under `mu.RLock` take the snapshot of the contents (unless updates-only) and
  register the listener — one atomic step with respect to commits.
* a subscriber's view is the fold of the events it received over its seed.  The consumer is assumed to keep
  receiving (the property's premise), so the buffering stages between bus and consumer (forwarder in hand,
  `DropExcess`, `mergeCollectionExcess`: C09 shows they preserve the fold) are drained and a delivery is
  never refused.

Publications in flight are kept in commit order in `pubs` (the grouping is ghost; each belongs to the
writer that committed it).  Schedules name a writer's commit, or the next move of the `k`-th publication
in flight, or a subscriber's subscribe step.
-/
namespace ScVerif.C03
open ScVerif.C02 (setAt setAt_same setAt_other)

structure Event (M : Type) where
  id : Nat
  /-- `some v`: ADD/UPDATE with new value `v`; `none`: REMOVE -/
  new : Option M
  /-- ghost: index of the commit that produced it -/
  seq : Nat

def applyEv {M : Type} (v : Nat → Option M) (e : Event M) : Nat → Option M := setAt v e.id e.new

/-- A write as seen from the store: what it does at its commit point.
`upd id f`: with current value `cur` (none = absent) commit `f cur`, or nothing if `f cur = none`
(precondition failed / lost the race).  `del id p`: remove the item if present and `p` holds. -/
inductive WOp (M : Type)
  | upd (id : Nat) (f : Option M → Option M)
  | del (id : Nat) (p : M → Bool)

structure Pub (M : Type) where
  owner : Nat
  ev : Event M
  /-- `none`: committed, `Bus.Send` not started; `some rem`: listener copy taken, `rem` still to be served -/
  stage : Option (List Nat)
  /-- published while holding the write lock (Delete) -/
  locked : Bool

structure Writer (M : Type) where
  prog : List (WOp M)
  busy : Bool

structure Sub (M : Type) where
  registered : Bool
  updatesOnly : Bool
  /-- contents at the subscribe step: the seed (for an updates-only subscriber: ghost, what it must already know) -/
  base : Nat → Option M
  evs : List (Event M)
  /-- ghost: number of commits before the subscribe step -/
  subAt : Nat

def Sub.view {M : Type} (s : Sub M) : Nat → Option M := s.evs.foldl applyEv s.base

structure Cfg (M : Type) where
  store : Nat → Option M
  nextSeq : Nat
  /-- a Delete holding `mu.Lock` while it publishes -/
  lock : Option Nat
  /-- `Bus.listeners`, in registration order -/
  listeners : List Nat
  pubs : List (Pub M)
  writers : Nat → Writer M
  subs : Nat → Sub M

inductive Act
  | commit (t : Nat)
  | snap (k : Nat)
  | deliver (k : Nat)
  | sub (s : Nat)
  deriving DecidableEq, Repr

variable {M : Type}

def Cfg.popOp (c : Cfg M) (t : Nat) (rest : List (WOp M)) (busy : Bool) : Cfg M :=
  { c with writers := setAt c.writers t ⟨rest, busy⟩ }

/-- the publication is over: the writer may go on, a Delete releases the lock -/
def Cfg.finishPub (c : Cfg M) (p : Pub M) (pubs' : List (Pub M)) : Cfg M :=
  { c with pubs := pubs'
           writers := setAt c.writers p.owner { c.writers p.owner with busy := false }
           lock := if p.locked then none else c.lock }

def stepCommit (c : Cfg M) (t : Nat) : Cfg M :=
  let w := c.writers t
  if w.busy || c.lock.isSome then c else
  match w.prog with
  | [] => c
  | .upd id f :: rest =>
    match f (c.store id) with
    | none => c.popOp t rest false
    | some v =>
      let e : Event M := ⟨id, some v, c.nextSeq⟩
      { c.popOp t rest true with
        store := applyEv c.store e, nextSeq := c.nextSeq + 1,
        pubs := c.pubs ++ [⟨t, e, none, false⟩] }
  | .del id p :: rest =>
    match c.store id with
    | none => c.popOp t rest false
    | some b =>
      if p b then
        let e : Event M := ⟨id, none, c.nextSeq⟩
        if c.listeners.isEmpty then
          { c.popOp t rest false with store := applyEv c.store e, nextSeq := c.nextSeq + 1 }
        else
          { c.popOp t rest true with
            store := applyEv c.store e, nextSeq := c.nextSeq + 1, lock := some t,
            pubs := c.pubs ++ [⟨t, e, some c.listeners, true⟩] }
      else c.popOp t rest false

def stepSnap (c : Cfg M) (k : Nat) : Cfg M :=
  match c.pubs.drop k with
  | [] => c
  | p :: post =>
    match p.stage with
    | some _ => c
    | none =>
      if c.listeners.isEmpty then c.finishPub p (c.pubs.take k ++ post)
      else { c with pubs := c.pubs.take k ++ { p with stage := some c.listeners } :: post }

def stepDeliver (c : Cfg M) (k : Nat) : Cfg M :=
  match c.pubs.drop k with
  | [] => c
  | p :: post =>
    match p.stage with
    | none => c
    | some [] => c
    | some (s :: rem) =>
      let sb := c.subs s
      let c' := { c with subs := setAt c.subs s { sb with evs := sb.evs ++ [p.ev] } }
      if rem.isEmpty then c'.finishPub p (c.pubs.take k ++ post)
      else { c' with pubs := c.pubs.take k ++ { p with stage := some rem } :: post }

def stepSub (c : Cfg M) (s : Nat) : Cfg M :=
  let sb := c.subs s
  if sb.registered || (!sb.updatesOnly && c.lock.isSome) then c else
  { c with subs := setAt c.subs s { sb with registered := true, base := c.store, evs := [], subAt := c.nextSeq }
           listeners := c.listeners ++ [s] }

def step (c : Cfg M) : Act → Cfg M
  | .commit t => stepCommit c t
  | .snap k => stepSnap c k
  | .deliver k => stepDeliver c k
  | .sub s => stepSub c s

def run (c : Cfg M) (sched : List Act) : Cfg M := sched.foldl step c

def initCfg (s₀ : Nat → Option M) (progs : Nat → List (WOp M)) (updatesOnly : Nat → Bool) : Cfg M :=
  { store := s₀, nextSeq := 0, lock := none, listeners := [], pubs := []
    writers := fun t => ⟨progs t, false⟩
    subs := fun s => ⟨false, updatesOnly s, fun _ => none, [], 0⟩ }

/-- the copies of a publication's event still to reach subscriber `s` (given `s` is registered) -/
def copies (s : Nat) (p : Pub M) : List (Event M) :=
  match p.stage with
  | none => [p.ev]
  | some rem => (rem.filter (· == s)).map (fun _ => p.ev)

def inflight (c : Cfg M) (s : Nat) : List (Event M) := c.pubs.flatMap (copies s)

/-- nothing is in flight: every committed change has been published to everyone -/
def Cfg.quiescent (c : Cfg M) : Bool := c.pubs.isEmpty

/-! ### "Publications delivered in commit order" as a condition on the steps of a run

* a delivery to subscriber `s` is the one of the EARLIEST commit still owed to `s`;
* when a subscriber registers, every committed publication whose `Bus.Send` has not started yet still
  carries the current value of its id (it has not been overtaken by a later commit's publication).
Both hold trivially when at most one publication is in flight. -/
def okStep [DecidableEq M] (c : Cfg M) : Act → Bool
  | .deliver k =>
    match c.pubs.drop k with
    | [] => true
    | p :: _ =>
      match p.stage with
      | some (s :: _) => (c.pubs.take k).all (fun q => (copies s q).isEmpty)
      | _ => true
  | .sub _ => c.pubs.all (fun p => p.stage.isSome || decide (c.store p.ev.id = p.ev.new))
  | _ => true

def ordered [DecidableEq M] (c : Cfg M) : List Act → Bool
  | [] => true
  | a :: rest => okStep c a && ordered (step c a) rest

end ScVerif.C03
