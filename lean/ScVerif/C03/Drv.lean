import ScVerif.Base.Line
import ScVerif.C03.Model
/-!
Driver handler for C03.  Messages are pairs of integers `(l, t)` (two independent fields); a plain integer `k`
stands for `(k, 0)`.

Request: `run <init> <progs> <subs> <sched>`
* init   `-` or `id:val,...`  (val = `l` or `l.t`)
* progs  writers separated by `|`, operations by `;` (empty writer `-`): `u/<id>/s<k>` set to (k,0), `u/<id>/a<k>` add k
         to the first field (absent = 0), `u/<id>/c<e>.<v>` set to (v,0) if the current value is (e,0) (else no commit),
         `u/<id>/w<l>.<t>` write the pair, `d/<id>`
* subs   `-` or comma separated `<updatesOnly 0|1><lossy 0|1><mask n|l|t|b>` per subscriber
* sched  `-` or comma separated steps: `c<t>` commit of writer t, `n<k>` snapshot / `d<k>` next delivery of the
         k-th publication in flight (commit order), `s<i>` subscribe, `x<i>` cancel, `r<i>` consumer i takes one
         event, `R` every consumer drains its stage

Answer: `store=…|S0=<live|gone|unreg>:<view>:<events>|…|pubs=<in flight>|lock=<0|1>|ord=<0|1>`
-/
namespace ScVerif.C03
open ScVerif.Line

abbrev V := Int × Int

def parseVal? (s : String) : Option V :=
  match s.splitOn "." with
  | [l] => (parseInt? l).map (fun l => (l, 0))
  | [l, t] => do
    let l ← parseInt? l
    let t ← parseInt? t
    pure (l, t)
  | _ => none

def showVal (v : V) : String := if v.2 = 0 then toString v.1 else s!"{v.1}.{v.2}"

def parseF? (s : String) : Option (Option V → Option V) :=
  if s.startsWith "s" then (parseInt? (s.drop 1).toString).map (fun k => fun _ => some (k, 0))
  else if s.startsWith "a" then
    (parseInt? (s.drop 1).toString).map (fun k => fun old => some ((old.getD (0, 0)).1 + k, (old.getD (0, 0)).2))
  else if s.startsWith "w" then (parseVal? (s.drop 1).toString).map (fun v => fun _ => some v)
  else if s.startsWith "c" then
    match ((s.drop 1).toString).splitOn "." with
    | [e, v] => do
      let e ← parseInt? e
      let v ← parseInt? v
      pure (fun old => if old = some (e, 0) then some (v, 0) else none)
    | _ => none
  else none

def parseOp? (s : String) : Option (WOp V) :=
  match s.splitOn "/" with
  | ["u", id, f] => do
    let id ← parseNat? id
    let f ← parseF? f
    pure (.upd id f)
  | ["d", id] => do
    let id ← parseNat? id
    pure (.del id (fun _ => true))
  | _ => none

def parseProg? (s : String) : Option (List (WOp V)) :=
  if s = "-" || s = "" then some [] else (s.splitOn ";").mapM parseOp?

def parseInit? (s : String) : Option (List (Nat × V)) :=
  if s = "-" || s = "" then some []
  else (s.splitOn ",").mapM (fun kv =>
    match kv.splitOn ":" with
    | [k, v] => do
      let k ← parseNat? k
      let v ← parseVal? v
      pure (k, v)
    | _ => none)

def parseMask? (c : Char) : Option (V → V) :=
  if c = 'n' then some id
  else if c = 'l' then some (fun v => (v.1, 0))
  else if c = 't' then some (fun v => (0, v.2))
  else if c = 'b' then some id
  else none

def parseSub? (s : String) : Option (SubOpts V) :=
  match s.toList with
  | [u, l, m] => do
    let u ← (if u = '1' then some true else if u = '0' then some false else none)
    let l ← (if l = '1' then some true else if l = '0' then some false else none)
    let m ← parseMask? m
    pure ⟨u, l, m⟩
  | _ => none

def parseSubs? (s : String) : Option (List (SubOpts V)) :=
  if s = "-" || s = "" then some [] else (s.splitOn ",").mapM parseSub?

inductive Tok
  | act (a : Act)
  | drainAll

def parseTok? (s : String) : Option Tok :=
  if s = "R" then some .drainAll else
  let n := parseNat? (s.drop 1).toString
  if s.startsWith "c" then n.map (fun n => .act (.commit n))
  else if s.startsWith "n" then n.map (fun n => .act (.snap n))
  else if s.startsWith "d" then n.map (fun n => .act (.deliver n))
  else if s.startsWith "s" then n.map (fun n => .act (.sub n))
  else if s.startsWith "x" then n.map (fun n => .act (.cancel n))
  else if s.startsWith "r" then n.map (fun n => .act (.recv n))
  else none

def parseSched? (s : String) : Option (List Tok) :=
  if s = "-" || s = "" then some [] else (s.splitOn ",").mapM parseTok?

/-- `R`: every consumer drains its stage (one `recv` per pending event) -/
def expand (nsubs : Nat) (c : Cfg V) : List Tok → List Act → Cfg V × List Act
  | [], acc => (c, acc.reverse)
  | .act a :: rest, acc => expand nsubs (step c a) rest (a :: acc)
  | .drainAll :: rest, acc =>
    let acts := (List.range nsubs).flatMap (fun s => List.replicate (c.subs s).pending.length (Act.recv s))
    expand nsubs (run c acts) rest (acts.reverse ++ acc)

def showView (v : Nat → Option V) : String :=
  ",".intercalate ((List.range 10).filterMap (fun i => (v i).map (fun x => s!"{i}={showVal x}")))

def showEv (m : V → V) (e : Event V) : String :=
  match e.new with
  | some v => s!"{e.id}={showVal (m v)}"
  | none => s!"{e.id}=nil"

def handle (toks : List String) : String :=
  match toks with
  | ["run", init, progs, subs, sched] =>
    match parseInit? init, (progs.splitOn "|").mapM parseProg?, parseSubs? subs, parseSched? sched with
    | some init, some progs, some subs, some sched =>
      let s₀ : Nat → Option V := fun i => (init.find? (fun kv => kv.1 == i)).map (·.2)
      let c₀ : Cfg V := initCfg s₀ (fun t => progs.getD t []) (fun s => subs.getD s ⟨false, false, id⟩)
      let (c, acts) := expand subs.length c₀ sched []
      let ss := (List.range subs.length).map (fun s =>
        let sb := c.subs s
        let st := if sb.cancelled then "gone" else if sb.registered then "live" else "unreg"
        s!"S{s}={st}:{showView sb.view}:" ++ ";".intercalate (sb.evs.map (showEv sb.mask)))
      s!"store={showView c.store}|" ++ "|".intercalate ss ++
        s!"|pubs={c.pubs.length}|lock={if c.lock.isSome then 1 else 0}|ord={if ordered c₀ acts then 1 else 0}"
    | _, _, _, _ => "!bad-op"
  | _ => "!bad-op"

end ScVerif.C03
