import ScVerif.Base.Line
import ScVerif.C03.Model
/-!
Driver handler for C03.  Messages are integers.

Request: `run <init> <progs> <updatesOnly> <sched>`
* init   `-` or `id:val,...`
* progs  writers separated by `|`, operations by `;` (empty writer `-`): `u/<id>/s<k>` set, `u/<id>/a<k>` add to
         the old value (absent = 0), `u/<id>/c<e>.<v>` set to v if the current value is e (else no commit), `d/<id>`
* updatesOnly  one `0`/`1` per subscriber (`-` for none)
* sched  `-` or comma separated steps: `c<t>` commit of writer t, `n<k>` snapshot / `d<k>` next delivery of the
         k-th publication in flight (commit order), `s<i>` subscribe of subscriber i

Answer: `store=…|S0=<registered>:<view>:<events>|…|pubs=<in flight>|lock=<0|1>|ord=<0|1>`
-/
namespace ScVerif.C03
open ScVerif.Line

def parseF? (s : String) : Option (Option Int → Option Int) :=
  if s.startsWith "s" then (parseInt? (s.drop 1).toString).map (fun k => fun _ => some k)
  else if s.startsWith "a" then (parseInt? (s.drop 1).toString).map (fun k => fun old => some (old.getD 0 + k))
  else if s.startsWith "c" then
    match ((s.drop 1).toString).splitOn "." with
    | [e, v] => do
      let e ← parseInt? e
      let v ← parseInt? v
      pure (fun old => if old = some e then some v else none)
    | _ => none
  else none

def parseOp? (s : String) : Option (WOp Int) :=
  match s.splitOn "/" with
  | ["u", id, f] => do
    let id ← parseNat? id
    let f ← parseF? f
    pure (.upd id f)
  | ["d", id] => do
    let id ← parseNat? id
    pure (.del id (fun _ => true))
  | _ => none

def parseProg? (s : String) : Option (List (WOp Int)) :=
  if s = "-" || s = "" then some [] else (s.splitOn ";").mapM parseOp?

def parseInit? (s : String) : Option (List (Nat × Int)) :=
  if s = "-" || s = "" then some []
  else (s.splitOn ",").mapM (fun kv =>
    match kv.splitOn ":" with
    | [k, v] => do
      let k ← parseNat? k
      let v ← parseInt? v
      pure (k, v)
    | _ => none)

def parseAct? (s : String) : Option Act :=
  let n := parseNat? (s.drop 1).toString
  if s.startsWith "c" then n.map .commit
  else if s.startsWith "n" then n.map .snap
  else if s.startsWith "d" then n.map .deliver
  else if s.startsWith "s" then n.map .sub
  else none

def parseSched? (s : String) : Option (List Act) :=
  if s = "-" || s = "" then some [] else (s.splitOn ",").mapM parseAct?

def parseUo? (s : String) : Option (List Bool) :=
  if s = "-" then some [] else s.toList.mapM (fun ch => if ch = '1' then some true else if ch = '0' then some false else none)

def showView (v : Nat → Option Int) : String :=
  ",".intercalate ((List.range 10).filterMap (fun i => (v i).map (fun x => s!"{i}={x}")))

def showEv (e : Event Int) : String :=
  match e.new with
  | some v => s!"{e.id}={v}"
  | none => s!"{e.id}=nil"

def handle (toks : List String) : String :=
  match toks with
  | ["run", init, progs, uo, sched] =>
    match parseInit? init, (progs.splitOn "|").mapM parseProg?, parseUo? uo, parseSched? sched with
    | some init, some progs, some uo, some sched =>
      let s₀ : Nat → Option Int := fun i => (init.find? (fun kv => kv.1 == i)).map (·.2)
      let c₀ : Cfg Int := initCfg s₀ (fun t => progs.getD t []) (fun s => uo.getD s false)
      let c := run c₀ sched
      let subs := (List.range uo.length).map (fun s =>
        let sb := c.subs s
        s!"S{s}={showBool sb.registered}:{showView sb.view}:" ++ ";".intercalate (sb.evs.map showEv))
      s!"store={showView c.store}|" ++ "|".intercalate subs ++
        s!"|pubs={c.pubs.length}|lock={if c.lock.isSome then 1 else 0}|ord={if ordered c₀ sched then 1 else 0}"
    | _, _, _, _ => "!bad-op"
  | _ => "!bad-op"

end ScVerif.C03
