import ScVerif.Base.Line
import ScVerif.C03.Model
import ScVerif.C03.Equiv
import ScVerif.C03.Tol
import ScVerif.C03.Compose
import ScVerif.C03.IcptDef
/-!
Driver handler for C03.  Messages are pairs of integers `(l, t)` (two independent fields); a plain integer `k`
stands for `(k, 0)`.

Request: `run <init> <progs> <subs> <sched>` | `runi <m> <init> <progs> <subs> <sched>` (the collection has the id
interceptor `· % m`: the programs name ids in the callers' spellings, `initI`; init ids are stored ids)
* init   `-` or `id:val,...`  (val = `l` or `l.t`)
* progs  writers separated by `|`, operations by `;` (empty writer `-`): `u/<id>/s<k>` set to (k,0), `u/<id>/a<k>` add k
         to the first field (absent = 0), `u/<id>/c<e>.<v>` set to (v,0) if the current value is (e,0) (else no commit),
         `u/<id>/w<l>.<t>` write the pair, `u/<id>/z<e>.<v>` set to (v,0) if the current value, an absent item read as
         the empty message (0,0), is (e,0) (a create-or-update overtaken by rivals: its re-validation), `d/<id>`
* subs   `-` or comma separated `<updatesOnly 0|1><lossy 0|1><mask n|l|t|b>` per subscriber
* sched  `-` or comma separated steps: `c<t>` commit of writer t, `n<k>` snapshot / `d<k>` next delivery of the
         k-th publication in flight (commit order), `s<i>` subscribe, `x<i>` cancel, `r<i>` consumer i takes one
         event, `R` every consumer drains its stage

         a subscriber may carry a 4th letter: its include function `n|a|b|c|d` (see `parseIncl?`), and a 5th: the
         resource's equivalence `n` none, `e` equal bodies, `l` / `t` equal first / second field, as `Collection.Pull`
         applies it (the change's own old value against its new value); `E|L|T`: the same as `Value.Pull` applies it
         (the value sent last against the new value); `a` / `A`: a TOLERANCE (both fields within 2 of each other, a
         zero field - unpopulated in proto3 - equivalent to a zero field only: reflexive and symmetric, NOT transitive -
         `cmp.Equal(cmp.FloatValueApprox(0, 2))`, see `tolField`)
Answer: `store=…|S0=<live|gone|unreg>:<view>:<events>|…|pubs=<in flight>|lock=<0|1>|ord=<0|1>`
(view and events are what the consumer RECEIVES: after include and read mask)

Decision tables (K2): `fwd <incl> <mask> <id> <old|-> <new|->` — one change through the forwarder: `drop` or
`<A|U|R>:<old>:<new>`; `merge <A|U|P|R>/<old|->/<new|-> <A|U|P|R>/<old|->/<new|->` — the merge stage holding the first
change receives the second (same id): `cancel` or `<A|U|R>:<old>:<new>`; `approx <num> <den> <margin> <x> <y>` — `cmp.FloatValueApprox(num/den, margin)` on the
integers x, y: `<0|1>/<0|1>` = the comparer itself (`approxInt`) / as `cmp.Equal` applies it to a scalar field
(`approxField`: a zero field is unpopulated and equivalent to a zero field only).

`pullid <id> <init> <progs> <subs> <sched>` | `pullidi <m> <id> <init> <progs> <subs> <sched>` — the same run, read as `Collection.PullID id` by subscriber 0:
`store=…|vals=<values delivered, `;` separated>|ended=<0|1>` (`Sub.pullID`, `Sub.pullIDEnded`).

Composing adapter (openclosepb `Model.PullPositions`): `compose <updatesOnly 0|1> <emptyAtSubscribe 0|1> <mask n|s|p>
<changes>` with changes `-` or comma separated `<id>=<val|nil>/<s|S|u>` (seed value, LAST seed value, update): the
messages sent, `;` separated, each `<states>#<preset>` (mask `s`: states only, `p`: preset only; the preset `P` stands
for exactly the states `1=41,2=42`), then `|last=<message|none>`.
-/
namespace ScVerif.C03
open ScVerif.Line

abbrev V := Int × Int

def parseVal? (s : String) : Option V :=
  match s.splitOn "." with
  | [l] => (parseInt? l).map (fun l => (l, 0))
  | [l, t] => do
    let l ← parseInt? l
    let t ← parseInt? t
    pure (l, t)
  | _ => none

def showVal (v : V) : String := if v.2 = 0 then toString v.1 else s!"{v.1}.{v.2}"

def parseF? (s : String) : Option (Option V → Option V) :=
  if s.startsWith "s" then (parseInt? (s.drop 1).toString).map (fun k => fun _ => some (k, 0))
  else if s.startsWith "a" then
    (parseInt? (s.drop 1).toString).map (fun k => fun old => some ((old.getD (0, 0)).1 + k, (old.getD (0, 0)).2))
  else if s.startsWith "w" then (parseVal? (s.drop 1).toString).map (fun v => fun _ => some v)
  else if s.startsWith "c" then
    match ((s.drop 1).toString).splitOn "." with
    | [e, v] => do
      let e ← parseInt? e
      let v ← parseInt? v
      pure (fun old => if old = some (e, 0) then some (v, 0) else none)
    | _ => none
  else if s.startsWith "z" then
    match ((s.drop 1).toString).splitOn "." with
    | [e, v] => do
      let e ← parseInt? e
      let v ← parseInt? v
      pure (fun old => if old.getD (0, 0) = (e, 0) then some (v, 0) else none)
    | _ => none
  else none

def parseOp? (s : String) : Option (WOp V) :=
  match s.splitOn "/" with
  | ["u", id, f] => do
    let id ← parseNat? id
    let f ← parseF? f
    pure (.upd id f)
  | ["d", id] => do
    let id ← parseNat? id
    pure (.del id (fun _ => true))
  | _ => none

def parseProg? (s : String) : Option (List (WOp V)) :=
  if s = "-" || s = "" then some [] else (s.splitOn ";").mapM parseOp?

def parseInit? (s : String) : Option (List (Nat × V)) :=
  if s = "-" || s = "" then some []
  else (s.splitOn ",").mapM (fun kv =>
    match kv.splitOn ":" with
    | [k, v] => do
      let k ← parseNat? k
      let v ← parseVal? v
      pure (k, v)
    | _ => none)

def parseMask? (c : Char) : Option (V → V) :=
  if c = 'n' then some id
  else if c = 'l' then some (fun v => (v.1, 0))
  else if c = 't' then some (fun v => (0, v.2))
  else if c = 'b' then some id
  else none

/-- the closed family of include functions shared with the harness: `n` none, `a` first field even, `b` second
field even, `c` first field ≥ 5, `d` the id is even and the second field is < 5 -/
def parseIncl? (c : Char) : Option (Option (Nat → V → Bool)) :=
  if c = 'n' then some none
  else if c = 'a' then some (some (fun _ v => v.1 % 2 == 0))
  else if c = 'b' then some (some (fun _ v => v.2 % 2 == 0))
  else if c = 'c' then some (some (fun _ v => decide (v.1 ≥ 5)))
  else if c = 'd' then some (some (fun i v => i % 2 == 0 && decide (v.2 < 5)))
  else none

/-- `Comparer.Compare` on possibly absent messages: an absent message is equivalent to an absent one only -/
def cmpOf (eq : V → V → Bool) : Option V → Option V → Bool
  | none, none => true
  | some a, some b => eq a b
  | _, _ => false

/-- one float field under `cmp.Equal(cmp.FloatValueApprox(0, 2))`: `equalMessage` first compares which fields are
POPULATED (a proto3 scalar at its zero value is not), so zero is equivalent to zero only; two populated fields are
equivalent when within 2 of each other -/
def tolField (x y : Int) : Bool := approxField 0 1 2 x y

/-- the resource's equivalence: (applied as `Value.Pull` does?, the comparer) -/
def parseEq? (c : Char) : Option (Option (Bool × (Option V → Option V → Bool))) :=
  let isVal := c.isUpper
  let c := c.toLower
  if c = 'n' then some none
  else if c = 'e' then some (some (isVal, cmpOf (fun a b => a == b)))
  else if c = 'l' then some (some (isVal, cmpOf (fun a b => a.1 == b.1)))
  else if c = 't' then some (some (isVal, cmpOf (fun a b => a.2 == b.2)))
  else if c = 'a' then some (some (isVal, cmpOf (fun a b => tolField a.1 b.1 && tolField a.2 b.2)))
  else none

def parseSubEq? (s : String) : Option (Option (Bool × (Option V → Option V → Bool))) :=
  match s.toList with
  | [_, _, _, _, q] => parseEq? q
  | [_, _, _, _] => some none
  | [_, _, _] => some none
  | _ => none

def parseSub? (s : String) : Option (SubOpts V) :=
  match s.toList.take 4 with
  | [u, l, m] => do
    let u ← (if u = '1' then some true else if u = '0' then some false else none)
    let l ← (if l = '1' then some true else if l = '0' then some false else none)
    let m ← parseMask? m
    pure ⟨u, l, m, none⟩
  | [u, l, m, f] => do
    let u ← (if u = '1' then some true else if u = '0' then some false else none)
    let l ← (if l = '1' then some true else if l = '0' then some false else none)
    let m ← parseMask? m
    let f ← parseIncl? f
    pure ⟨u, l, m, f⟩
  | _ => none

def parseSubs? (s : String) : Option (List (SubOpts V)) :=
  if s = "-" || s = "" then some [] else (s.splitOn ",").mapM parseSub?

def parseSubEqs? (s : String) : Option (List (Option (Bool × (Option V → Option V → Bool)))) :=
  if s = "-" || s = "" then some [] else (s.splitOn ",").mapM parseSubEq?

inductive Tok
  | act (a : Act)
  | drainAll

def parseTok? (s : String) : Option Tok :=
  if s = "R" then some .drainAll else
  let n := parseNat? (s.drop 1).toString
  if s.startsWith "c" then n.map (fun n => .act (.commit n))
  else if s.startsWith "n" then n.map (fun n => .act (.snap n))
  else if s.startsWith "d" then n.map (fun n => .act (.deliver n))
  else if s.startsWith "s" then n.map (fun n => .act (.sub n))
  else if s.startsWith "x" then n.map (fun n => .act (.cancel n))
  else if s.startsWith "r" then n.map (fun n => .act (.recv n))
  else none

def parseSched? (s : String) : Option (List Tok) :=
  if s = "-" || s = "" then some [] else (s.splitOn ",").mapM parseTok?

/-- `R`: every consumer drains its stage (one `recv` per pending event) -/
def expand (nsubs : Nat) (c : Cfg V) : List Tok → List Act → Cfg V × List Act
  | [], acc => (c, acc.reverse)
  | .act a :: rest, acc => expand nsubs (step c a) rest (a :: acc)
  | .drainAll :: rest, acc =>
    let acts := (List.range nsubs).flatMap (fun s => List.replicate (c.subs s).pending.length (Act.recv s))
    expand nsubs (run c acts) rest (acts.reverse ++ acc)

def showView (v : Nat → Option V) : String :=
  ",".intercalate ((List.range 10).filterMap (fun i => (v i).map (fun x => s!"{i}={showVal x}")))

def showEv (m : V → V) (e : Event V) : String :=
  match e.new with
  | some v => s!"{e.id}={showVal (m v)}"
  | none => s!"{e.id}=nil"

def parseOptVal? (s : String) : Option (Option V) :=
  if s = "-" then some none else (parseVal? s).map some

def showOptVal : Option V → String
  | none => "-"
  | some v => showVal v

def showChange (e : Event V) : String :=
  let ty := if e.isAdd then "A" else if e.new.isNone then "R" else "U"
  s!"{ty}:{showOptVal e.old}:{showOptVal e.new}"

def parseChange? (s : String) : Option (Event V) :=
  match s.splitOn "/" with
  | [ty, o, n] => do
    let o ← parseOptVal? o
    let n ← parseOptVal? n
    if ty = "A" || ty = "U" || ty = "P" || ty = "R" then pure ⟨0, o, n, ty = "A", 0⟩ else none
  | _ => none

def handleTable (toks : List String) : Option String :=
  match toks with
  | ["fwd", incl, mask, id, o, n] => do
    let incl ← (match incl.toList with | [c] => parseIncl? c | _ => none)
    let mask ← (match mask.toList with | [c] => parseMask? c | _ => none)
    let id ← parseNat? id
    let o ← parseOptVal? o
    let n ← parseOptVal? n
    if o.isNone && n.isNone then none else
    match fwdEv incl mask ⟨id, o, n, o.isNone, 0⟩ with
    | none => pure "drop"
    | some e => pure (showChange e)
  | ["approx", num, den, margin, x, y] => do
    let num ← parseNat? num
    let den ← parseNat? den
    let margin ← parseNat? margin
    let x ← parseInt? x
    let y ← parseInt? y
    if den = 0 then none else
    let b := fun (v : Bool) => if v then "1" else "0"
    pure (b (approxInt num den margin x y) ++ "/" ++ b (approxField num den margin x y))
  | ["merge", a, b] => do
    let a ← parseChange? a
    let b ← parseChange? b
    match mergeInto [a] b with
    | [] => pure "cancel"
    | [e] => pure (showChange e)
    | _ => none
  | _ => none

/-- the composed message of the driver: states listed by id, the preset derived from ALL states, then the caller's
response filter (`n` none, `s` the states only, `p` the preset only) -/
def composeMsg (mask : Char) (all : Nat → Option V) : String :=
  let states := showView all
  let preset := if states = "1=41,2=42" then "P" else ""
  if mask = 's' then s!"{states}#" else if mask = 'p' then s!"#{preset}" else s!"{states}#{preset}"

def parseChg? (s : String) : Option (Compose.Chg V) :=
  match s.splitOn "/" with
  | [kv, fl] =>
    match kv.splitOn "=" with
    | [k, v] => do
      let k ← parseNat? k
      let v ← (if v = "nil" then some none else (parseVal? v).map some)
      if fl = "s" then pure ⟨k, v, true, false⟩
      else if fl = "S" then pure ⟨k, v, true, true⟩
      else if fl = "u" then pure ⟨k, v, false, false⟩
      else none
    | _ => none
  | _ => none

def handleCompose (toks : List String) : Option String :=
  match toks with
  | ["compose", uo, emp, mask, chgs] => do
    let uo ← (if uo = "1" then some true else if uo = "0" then some false else none)
    let emp ← (if emp = "1" then some true else if emp = "0" then some false else none)
    let mask ← (match mask.toList with | [c] => (if c = 'n' || c = 's' || c = 'p' then some c else none) | _ => none)
    let cs ← (if chgs = "-" then some [] else (chgs.splitOn ",").mapM parseChg?)
    let st : Compose.St V String := Compose.runAd (composeMsg mask) uo emp cs
    pure (";".intercalate st.out ++ "|last=" ++ st.last.getD "none")
  | _ => none

def handle (toks : List String) : String :=
  match (handleTable toks).orElse (fun _ => handleCompose toks) with
  | some r => r
  | none =>
  match toks with
  | "run" :: args | "runi" :: args =>
    -- `runi <m> …`: the collection has the id interceptor `· % m`; the programs name ids in the callers' spellings
    let parsed : Option (Option Nat × String × String × String × String) := match toks.head?, args with
      | some "run", [init, progs, subs, sched] => some (none, init, progs, subs, sched)
      | some "runi", [m, init, progs, subs, sched] => (parseNat? m).bind (fun m => if m = 0 then none else some (some m, init, progs, subs, sched))
      | _, _ => none
    match parsed with
    | none => "!bad-op"
    | some (im, init, progs, subs, sched) =>
    match parseInit? init, (progs.splitOn "|").mapM parseProg?, parseSubs? subs, parseSched? sched, parseSubEqs? subs with
    | some init, some progs, some subs, some sched, some eqs =>
      let s₀ : Nat → Option V := fun i => (init.find? (fun kv => kv.1 == i)).map (·.2)
      let sopts : Nat → SubOpts V := fun s => subs.getD s ⟨false, false, id, none⟩
      let c₀ : Cfg V := match im with
        | none => initCfg s₀ (fun t => progs.getD t []) sopts
        | some m => initI (· % m) s₀ (fun t => progs.getD t []) sopts
      let (c, acts) := expand subs.length c₀ sched []
      let ss := (List.range subs.length).map (fun s =>
        let sb := c.subs s
        let st := if sb.cancelled then "gone" else if sb.registered then "live" else "unreg"
        let (view, evs) := match eqs.getD s none with
          | none => (sb.obsView, sb.obs)
          | some (false, cmp) => (sb.obsViewEqColl cmp, sb.obsEqColl cmp)
          | some (true, cmp) => (sb.obsViewEqVal cmp, sb.obsEqVal cmp)
        s!"S{s}={st}:{showView view}:" ++ ";".intercalate (evs.map (showEv id)))
      s!"store={showView c.store}|" ++ "|".intercalate ss ++
        s!"|pubs={c.pubs.length}|lock={if c.lock.isSome then 1 else 0}|ord={if ordered c₀ acts then 1 else 0}"
    | _, _, _, _, _ => "!bad-op"
  | "pullid" :: args | "pullidi" :: args =>
    -- `Collection.PullID pid` by subscriber 0: the values its stream delivers and whether a REMOVE has ended it;
    -- `pullidi <m> <pid> …`: id interceptor `· % m`, `pid` and the programs' ids in the callers' spellings
    let parsed : Option (Option Nat × String × String × String × String × String) := match toks.head?, args with
      | some "pullid", [pid, init, progs, subs, sched] => some (none, pid, init, progs, subs, sched)
      | some "pullidi", [m, pid, init, progs, subs, sched] =>
        (parseNat? m).bind (fun m => if m = 0 then none else some (some m, pid, init, progs, subs, sched))
      | _, _ => none
    match parsed with
    | none => "!bad-op"
    | some (im, pid, init, progs, subs, sched) =>
    match parseNat? pid, parseInit? init, (progs.splitOn "|").mapM parseProg?, parseSubs? subs, parseSched? sched with
    | some pid, some init, some progs, some subs, some sched =>
      let s₀ : Nat → Option V := fun i => (init.find? (fun kv => kv.1 == i)).map (·.2)
      let sopts : Nat → SubOpts V := fun s => subs.getD s ⟨false, false, id, none⟩
      let c₀ : Cfg V := match im with
        | none => initCfg s₀ (fun t => progs.getD t []) sopts
        | some m => initI (· % m) s₀ (fun t => progs.getD t []) sopts
      let pid := match im with
        | none => pid
        | some m => pid % m   -- `PullID` begins with `id = c.idInterceptor(id)` too
      let (c, _) := expand subs.length c₀ sched []
      let sb := c.subs 0
      -- an updates-only subscriber is sent no seed (`base` is then a ghost: what it must already know)
      let nseed := if sb.updatesOnly then (seedView sb.incl sb.mask sb.base pid).toList.length else 0
      let vals := if sb.registered then ";".intercalate (((sb.pullID pid).drop nseed).map showVal) else ""
      s!"store={showView c.store}|vals={vals}|ended={if sb.pullIDEnded pid then 1 else 0}"
    | _, _, _, _, _ => "!bad-op"
  | _ => "!bad-op"

end ScVerif.C03
