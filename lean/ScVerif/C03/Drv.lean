import ScVerif.Base.Line
/-! Driver handler for C03 (stub: replaced by the property's owner). -/
namespace ScVerif.C03

def handle (_toks : List String) : String := "!bad-op"

end ScVerif.C03
