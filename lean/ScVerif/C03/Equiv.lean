import ScVerif.C03.Forwarder
/-!
# C03 — the resource's equivalence (`WithEquivalence` / `WithMessageEquivalence` / `WithNoDuplicates`) in the forwarders

`cmp` is `Comparer.Compare` on possibly absent (nil) messages.

* `Collection.Pull`: after `include` and the read mask a change is skipped when
  `c.equivalence.Compare(change.OldValue, change.NewValue)` (`dedupColl`): the change's OWN old value is the
  reference, so this is sound only on a linked stream.
* `Value.Pull`: a change is skipped when `r.equivalence.Compare(last, change.Value)` where `last` is the value most
  recently SENT to this receiver (after the mask), initially the seed (nil for updates-only) (`dedupVal`).

Result: the view folded from the de-duplicated stream is pointwise `cmp`-related to the view folded from the whole
stream — for a `cmp` that is reflexive (Value) / reflexive and transitive (Collection); with `cmp` = equality
(`WithNoDuplicates` on exact bodies) the views are equal.
-/
set_option linter.unusedSectionVars false
set_option linter.unusedVariables false
namespace ScVerif.C03
open ScVerif.C02 (setAt setAt_same setAt_other)

variable {M : Type}

/-- the event loop of `Collection.Pull` with an equivalence: `if c.equivalence.Compare(change.OldValue,
change.NewValue) { continue }` on the change as it leaves `include` and `filter` -/
def dedupColl (cmp : Option M → Option M → Bool) (L : List (Event M)) : List (Event M) :=
  L.filter (fun e => !cmp e.old e.new)

/-- the event loop of `Value.Pull` with an equivalence: `if r.equivalence.Compare(last, change.Value) { continue };
last = change.Value` -/
def dedupVal (cmp : Option M → Option M → Bool) : Option M → List (Event M) → List (Event M)
  | _, [] => []
  | last, e :: L => if cmp last e.new then dedupVal cmp last L else e :: dedupVal cmp e.new L

/-- what the consumer of a `Collection.Pull` on a collection with equivalence `cmp` receives after the seed -/
def Sub.obsEqColl (cmp : Option M → Option M → Bool) (s : Sub M) : List (Event M) := dedupColl cmp s.obs

/-- its folded view -/
def Sub.obsViewEqColl (cmp : Option M → Option M → Bool) (s : Sub M) : Nat → Option M :=
  (s.obsEqColl cmp).foldl applyEv (seedView s.incl s.mask s.base)

/-- `last` when the event loop of `Value.Pull` starts: the seed as sent (nil for an updates-only subscriber) -/
def Sub.valSeed (s : Sub M) : Option M := if s.updatesOnly then none else seedView s.incl s.mask s.base 0

/-- what the consumer of a `Value.Pull` on a value with equivalence `cmp` receives after the seed -/
def Sub.obsEqVal (cmp : Option M → Option M → Bool) (s : Sub M) : List (Event M) := dedupVal cmp s.valSeed s.obs

def Sub.obsViewEqVal (cmp : Option M → Option M → Bool) (s : Sub M) : Nat → Option M :=
  (s.obsEqVal cmp).foldl applyEv (seedView s.incl s.mask s.base)

/-! ### the forwarded stream of a linked stream is linked to the forwarded seed -/

theorem fwd_linkOK (incl : Option (Nat → M → Bool)) (mask : M → M) (strict : Bool) (evs : List (Event M)) :
    ∀ v : Nat → Option M, linkOK strict v evs →
      linkOK strict (seedView incl mask v) (evs.filterMap (fwdEv incl mask)) := by
  induction evs with
  | nil => intro v _; trivial
  | cons e L ih =>
    intro v h
    simp only [linkOK] at h
    have hcl : v e.id = e.old ∨ v e.id = e.new := by
      rcases h.1 with h1 | h1
      · exact Or.inl h1
      · exact Or.inr h1.2
    have hstep := fwd_step incl mask v e hcl
    have ih' := ih _ h.2
    rw [← hstep] at ih'
    cases hf : fwdEv incl mask e with
    | none =>
      simp only [List.filterMap_cons, hf]
      simpa [hf] using ih'
    | some e' =>
      simp only [List.filterMap_cons, hf, linkOK]
      refine ⟨?_, by simpa [hf] using ih'⟩
      obtain ⟨hid, hnew⟩ := fwdEv_some hf
      rw [seedView_apply, hid]
      -- the old value of the forwarded change
      unfold fwdEv at hf
      cases incl with
      | none =>
        simp only [Option.some.injEq] at hf
        subst hf
        simp only []
        have hs : ∀ o : Option M, seedOpt none mask e.id o = o.map mask := by
          intro o; cases o <;> simp [seedOpt, Option.filter, inclOpt]
        rw [hs]
        rcases h.1 with h1 | h1
        · left; rw [h1]
        · right; exact ⟨h1.1, by rw [h1.2]⟩
      | some f =>
        simp only [] at hf
        cases hni : inclOpt (some f) e.id e.new <;> cases hoi : inclOpt (some f) e.id e.old <;>
          simp only [hni, hoi, if_true, if_false, Bool.false_eq_true, Bool.true_eq_false, reduceCtorEq,
            Option.some.injEq] at hf
        · -- old included, new excluded: a REMOVE carrying the masked old value
          subst hf
          simp only []
          rcases h.1 with h1 | h1
          · left; rw [h1, seedOpt_incl hoi]
          · right; exact ⟨h1.1, by rw [h1.2, seedOpt_excl hni]⟩
        · -- old excluded, new included: an ADD without old value
          subst hf
          simp only []
          rcases h.1 with h1 | h1
          · left; rw [h1, seedOpt_excl hoi]
          · right; exact ⟨h1.1, by rw [h1.2, seedOpt_incl hni]⟩
        · -- both included
          subst hf
          simp only []
          rcases h.1 with h1 | h1
          · left; rw [h1, seedOpt_incl hoi]
          · right; exact ⟨h1.1, by rw [h1.2, seedOpt_incl hni]⟩

/-! ### Collection: skipping changes whose own old and new value are equivalent -/

theorem dedupColl_fold (cmp : Option M → Option M → Bool) (hrefl : ∀ a, cmp a a = true)
    (htrans : ∀ a b c, cmp a b = true → cmp b c = true → cmp a c = true) (strict : Bool) (L : List (Event M)) :
    ∀ u v : Nat → Option M, (∀ i, cmp (u i) (v i) = true) → linkOK strict v L →
      ∀ i, cmp ((dedupColl cmp L).foldl applyEv u i) (L.foldl applyEv v i) = true := by
  induction L with
  | nil => intro u v h _ i; exact h i
  | cons e L ih =>
    intro u v hrel hl
    simp only [linkOK] at hl
    simp only [dedupColl, List.filter_cons, List.foldl_cons]
    cases hc : cmp e.old e.new with
    | true =>
      simp only [Bool.not_true, Bool.false_eq_true, if_false]
      apply ih u (applyEv v e) ?_ hl.2
      intro i
      simp only [applyEv, setAt]
      split
      · next hi =>
        subst hi
        rcases hl.1 with h1 | h1
        · exact htrans _ _ _ (hrel e.id) (by rw [h1]; exact hc)
        · have := hrel e.id
          rw [h1.2] at this
          exact this
      · exact hrel i
    | false =>
      simp only [Bool.not_false, if_true, List.foldl_cons]
      apply ih (applyEv u e) (applyEv v e) ?_ hl.2
      intro i
      simp only [applyEv, setAt]
      split
      · exact hrefl _
      · exact hrel i

/-! ### Value: skipping changes equivalent to the value sent last -/

theorem dedupVal_fold (cmp : Option M → Option M → Bool) (hrefl : ∀ a, cmp a a = true) (j : Nat) (L : List (Event M)) :
    (∀ e, e ∈ L → e.id = j) →
    ∀ (last : Option M) (u v : Nat → Option M),
      (u j = last ∨ (last = none ∧ ∀ e, e ∈ L → cmp none e.new = false)) → cmp (u j) (v j) = true →
      cmp ((dedupVal cmp last L).foldl applyEv u j) (L.foldl applyEv v j) = true := by
  induction L with
  | nil => intro _ last u v _ h; exact h
  | cons e L ih =>
    intro hid last u v hlast hrel
    have hej : e.id = j := hid e List.mem_cons_self
    have hid' : ∀ e', e' ∈ L → e'.id = j := fun e' he' => hid e' (List.mem_cons_of_mem _ he')
    simp only [dedupVal, List.foldl_cons]
    cases hc : cmp last e.new with
    | true =>
      simp only [if_true]
      have hu : u j = last := by
        rcases hlast with h1 | h1
        · exact h1
        · have := h1.2 e List.mem_cons_self
          rw [h1.1] at hc
          rw [hc] at this
          cases this
      apply ih hid' last u (applyEv v e) (Or.inl hu)
      simp only [applyEv, setAt, hej, if_true]
      rw [hu]
      exact hc
    | false =>
      simp only [Bool.false_eq_true, if_false, List.foldl_cons]
      apply ih hid' e.new (applyEv u e) (applyEv v e) (Or.inl ?_)
      · simp only [applyEv, setAt, hej, if_true]
        exact hrefl _
      · simp only [applyEv, setAt, hej, if_true]

/-- the de-duplicated stream of a Value only touches its single id -/
theorem dedupVal_ids (cmp : Option M → Option M → Bool) (j : Nat) (L : List (Event M)) :
    (∀ e, e ∈ L → e.id = j) → ∀ last e, e ∈ dedupVal cmp last L → e.id = j := by
  induction L with
  | nil => intro _ last e he; simp [dedupVal] at he
  | cons a L ih =>
    intro hid last e he
    simp only [dedupVal] at he
    split at he
    · exact ih (fun e' he' => hid e' (List.mem_cons_of_mem _ he')) last e he
    · rcases List.mem_cons.mp he with h1 | h1
      · rw [h1]; exact hid a List.mem_cons_self
      · exact ih (fun e' he' => hid e' (List.mem_cons_of_mem _ he')) _ e h1

end ScVerif.C03
