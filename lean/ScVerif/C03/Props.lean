import ScVerif.C03.Inv
import ScVerif.C03.Lossy
/-!
# C03 — property theorems

Property (fixed text): "For a Pull or PullID subscription opened at any moment relative to concurrent
writers, with any updates-only, backpressure and read-mask settings and a reader that keeps receiving,
applying the received events in order to a view (seed events first) yields, once writers stop, exactly what
Get or List return. No change committed around the moment of subscribing is missed or duplicated into a
wrong state, no event overtakes a later commit so that the view ends stale, and the last event delivered for
a Value is its final value."

FULL-STRENGTH STATEMENT (`C03_converges`): for all initial contents, writer programs, subscribers and ALL
schedules `sched`, if `run (initCfg …) sched` is quiescent then every registered subscriber's view equals
the store.

This is FALSE for the code as it is (`C03_converges_fails`): `Value.set` and `Collection.Update` publish after
releasing the lock, so the publications of two writers can reach a subscriber in the opposite order of their
commits and the subscriber ends stale (recorded in known_findings/C03.json, replayed on the real code by the
check).  What is proved for every schedule is `C03_converges_partial`, under the explicit, decidable
hypothesis `ordered`: publications are delivered in commit order.  Only property theorems and non-vacuity
examples live in this file.
-/
namespace ScVerif.C03
open ScVerif.C02 (setAt)

variable {M : Type} [DecidableEq M]

/-- **Convergence, partial.**  For every initial contents, all writer programs (any number of writers, any
operations incl. arbitrary read-modify-write functions and conditional deletes), any subscribers (seeded or
updates-only, subscribing at any point of the run) and every schedule in which publications are delivered in
commit order (`ordered`): at every moment, each registered subscriber's view followed by the events still
owed to it is the store; hence at quiescence (nothing in flight) its view IS the store — nothing committed
around the subscribe step was missed or duplicated into a wrong state. -/
theorem C03_converges_partial (s₀ : Nat → Option M) (progs : Nat → List (WOp M)) (uo : Nat → Bool)
    (sched : List Act) (hord : ordered (initCfg s₀ progs uo) sched = true) :
    let c : Cfg M := run (initCfg s₀ progs uo) sched
    (∀ s, (c.subs s).registered = true → (inflight c s).foldl applyEv (c.subs s).view = c.store) ∧
    (c.quiescent = true → ∀ s, (c.subs s).registered = true → (c.subs s).view = c.store) := by
  intro c
  have h := (Inv.init s₀ progs uo).run sched hord
  refine ⟨h.view, ?_⟩
  intro hq s hs
  have := h.view s hs
  have hp : (run (initCfg s₀ progs uo) sched).pubs = [] := List.isEmpty_iff.mp hq
  unfold inflight at this
  rw [hp] at this
  exact this

/-- **Updates-only.**  Same runs: for an updates-only subscriber, folding the received events over the
contents at its subscribe step (`base`, which it is assumed to know already) gives the final contents. -/
theorem C03_updates_only (s₀ : Nat → Option M) (progs : Nat → List (WOp M)) (uo : Nat → Bool)
    (sched : List Act) (hord : ordered (initCfg s₀ progs uo) sched = true) :
    let c : Cfg M := run (initCfg s₀ progs uo) sched
    c.quiescent = true → ∀ s, (c.subs s).registered = true → (c.subs s).updatesOnly = true →
      (c.subs s).evs.foldl applyEv (c.subs s).base = c.store := by
  intro c hq s hs _
  exact (C03_converges_partial s₀ progs uo sched hord).2 hq s hs

/-! ### The defect: an event overtakes a later commit -/

/-- writer 0 sets id 0 to 1, writer 1 sets id 0 to 2; one subscriber -/
def twoWriters : Nat → List (WOp Int) := fun t =>
  if t = 0 then [.upd 0 (fun _ => some 1)] else if t = 1 then [.upd 0 (fun _ => some 2)] else []

/-- subscribe; W0 commits 1; W1 commits 2; W1 publishes (snapshot, deliver); W0 publishes (snapshot, deliver) -/
def staleSched : List Act :=
  [.sub 0, .commit 0, .commit 1, .snap 1, .deliver 1, .snap 0, .deliver 0]

def staleRun : Cfg Int := run (initCfg (fun _ => none) twoWriters (fun _ => false)) staleSched

/-- **`C03_converges` fails on the code as it is**: a quiescent configuration in which the subscriber's view
(id 0 ↦ 1) differs from the store (id 0 ↦ 2); the last event it received carries 1. -/
theorem C03_converges_fails :
    staleRun.quiescent = true ∧ (staleRun.subs 0).registered = true ∧
    (staleRun.subs 0).view 0 = some 1 ∧ staleRun.store 0 = some 2 ∧
    (staleRun.subs 0).evs.map (·.new) = [some 2, some 1] := by
  decide

/-- the witness schedule is (of course) not `ordered` -/
example : ordered (initCfg (fun _ => none) twoWriters (fun _ => false)) staleSched = false := by decide

/-! ### Non-vacuity of the hypothesis: ordered runs that reach quiescence with real traffic -/

def orderedSched : List Act :=
  [.commit 0, .sub 0, .commit 1, .snap 0, .deliver 0, .snap 0, .sub 1, .deliver 0, .deliver 0]

def orderedRun : Cfg Int := run (initCfg (fun _ => none) twoWriters (fun s => s == 1)) orderedSched

/-- two writers overlapping, a seeded subscriber registering between a commit and its publication (it gets
the duplicate), an updates-only subscriber registering later: ordered, quiescent, both views equal the store -/
example :
    ordered (initCfg (fun _ => none) twoWriters (fun s => s == 1)) orderedSched = true ∧
    orderedRun.quiescent = true ∧ orderedRun.store 0 = some 2 ∧
    (orderedRun.subs 0).evs.map (·.new) = [some 1, some 2] ∧ (orderedRun.subs 0).view 0 = some 2 ∧
    (orderedRun.subs 1).registered = true ∧ (orderedRun.subs 1).view 0 = some 2 := by
  decide

/-- a Delete publishes under the lock: a commit attempted meanwhile is disabled (the step is a no-op) -/
example :
    let progs : Nat → List (WOp Int) := fun t =>
      if t = 0 then [.del 0 (fun _ => true)] else if t = 1 then [.upd 0 (fun _ => some 5)] else []
    let c₀ : Cfg Int := initCfg (fun i => if i = 0 then some 3 else none) progs (fun _ => false)
    (run c₀ [.sub 0, .commit 0, .commit 1]).store 0 = none ∧
    (run c₀ [.sub 0, .commit 0, .commit 1]).lock = some 0 ∧
    (run c₀ [.sub 0, .commit 0, .deliver 0, .commit 1]).store 0 = some 5 := by
  decide

/-! ### The lossy face of publish-after-unlock: a duplicate of the seed is cancelled by a later REMOVE

`C03_converges_partial` treats the stages between bus and consumer as drained.  With a paused consumer the
merge stage of a LOSSY `Collection.Pull` sees the duplicate ADD (the change was committed before the subscriber's
snapshot but published after it) and cancels it against a following REMOVE, so the REMOVE never reaches a
subscriber whose seed already contains the id.  Single writer.  Recorded in known_findings/C03.json and
exhibited on the real code by the monitor `converges-lossy-seed-dup-hooked`. -/

open Lossy in
/-- **Dup not harmless under merging.**  Store initially empty; `Add(0, 10)` commits; the subscriber's snapshot
(`seed`) already holds id 0; then the ADD is published and a `Delete(0)` follows while the consumer is paused.
The pending list ends empty, the drained view keeps id 0, the store does not. -/
theorem C03_lossy_seed_dup_fails :
    let add : Chg := ⟨0, .add, some 10⟩
    let del : Chg := ⟨0, .remove, none⟩
    let seed : Nat → Option Int := applyChg (fun _ => none) add
    let store : Nat → Option Int := [add, del].foldl applyChg (fun _ => none)
    let pending := recv (recv [] add) del
    pending = [] ∧ (pending.foldl applyChg seed) 0 = some 10 ∧ store 0 = none := by
  decide

open Lossy in
/-- without the duplicate (the subscriber registered before the commit, its seed lacks the id) the same
cancellation is harmless -/
example :
    let add : Chg := ⟨0, .add, some 10⟩
    let del : Chg := ⟨0, .remove, none⟩
    ((recv (recv [] add) del).foldl applyChg (fun _ => none)) 0 = ([add, del].foldl applyChg (fun _ => none)) 0 := by
  decide

end ScVerif.C03
