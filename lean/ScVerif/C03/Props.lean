import ScVerif.C03.Inv2
/-!
# C03 — property theorems

Property (fixed text): "For a Pull or PullID subscription opened at any moment relative to concurrent
writers, with any updates-only, backpressure and read-mask settings and a reader that keeps receiving,
applying the received events in order to a view (seed events first) yields, once writers stop, exactly what
Get or List return. No change committed around the moment of subscribing is missed or duplicated into a
wrong state, no event overtakes a later commit so that the view ends stale, and the last event delivered for
a Value is its final value."

The model (`Model.lean`) has: any number of writers (arbitrary read-modify-write functions, conditional
deletes), publications as commit ▸ listener copy ▸ per-listener delivery ▸ `Bus.collect`, Delete publishing
under the lock, subscribers that are seeded or updates-only, backpressured (forwarder holds one event, the bus
blocks) or lossy (merge stage: one pending change per id, ADD+REMOVE cancels), with a read mask (a
projection), that may be cancelled at any step, and consumers of ANY pace (`recv` steps).

FULL-STRENGTH STATEMENT (`C03_converges`): for ALL schedules, at quiescence every live subscriber that has
drained its stage sees the projection of the store.  This is FALSE for the code as it is, in two ways, both
recorded in known_findings/C03.json and replayed on the real code by the check:
* `C03_converges_fails` — publications of two writers delivered in the opposite order of their commits;
* `C03_lossy_seed_dup_fails` — single writer: a lossy subscriber seeded with a change that is published only
  afterwards; the merge stage cancels that duplicate ADD against a later REMOVE.
What is proved for every schedule satisfying the explicit decidable hypothesis `ordered` — the publications OF
ONE ID reach a subscriber in commit order (publications of different ids may overtake each other), and a subscriber
registers only when the pending publications are current — is `C03_converges_partial` (raw view), `C03_converges_observed`
(what the consumer folds from what it RECEIVES through the forwarder: include on the stored values, then the read
mask), `C03_pullid_converges`, `C03_last_event_final`, `C03_updates_only`; `C03_no_miss_at_subscribe` and
`C03_listeners_exact` hold for ALL schedules; `C03_forwarder_include_mask` for all linked streams;
`C03_value_stage_is_drop_excess` for the lossy stage of a Value; `C03_dup_harmless` and `C03_lossy_seed_dup_fails` say
exactly where a duplicate of the seed is harmless and where it is not.
Only property theorems and non-vacuity examples live in this file.
-/
namespace ScVerif.C03
open ScVerif.C02 (setAt)

variable {M : Type} [DecidableEq M]

/-- **Convergence, partial** (publications of one id delivered in commit order; subscriber churn, any consumer
pace, lossy or backpressured stage, read masks).  For all contents, writer programs, subscriber options and every schedule
of commit / snapshot / deliver / subscribe / cancel / consumer-receive steps that is `ordered`:
at every moment, for every LIVE subscriber (registered, not cancelled) its raw view followed by what sits in
its stage (forwarder in hand, or the merger's pending changes after any number of merges and ADD+REMOVE
cancellations) followed by the events still owed to it is the store; hence once nothing is in flight and its stage
is drained, what its consumer sees is exactly the projection of the store under its own read mask. -/
theorem C03_converges_partial (s₀ : Nat → Option M) (progs : Nat → List (WOp M)) (opts : Nat → SubOpts M)
    (sched : List Act) (hord : ordered (initCfg s₀ progs opts) sched = true) :
    let c : Cfg M := run (initCfg s₀ progs opts) sched
    (∀ s, (c.subs s).live = true →
      ((c.subs s).pending ++ inflight c s).foldl applyEv (c.subs s).rawView = c.store) ∧
    (c.quiescent = true → ∀ s, (c.subs s).live = true → (c.subs s).pending = [] →
      (c.subs s).view = fun i => (c.store i).map (c.subs s).mask) := by
  intro c
  have h := (Inv.init true s₀ progs opts).run sched hord
  refine ⟨h.view rfl, ?_⟩
  intro hq s hs hp
  have := h.view rfl s hs
  have hpubs : (run (initCfg s₀ progs opts) sched).pubs = [] := List.isEmpty_iff.mp hq
  unfold inflight at this
  rw [hpubs, hp] at this
  simp only [List.flatMap_nil, List.append_nil, List.foldl_nil] at this
  funext i
  simp only [Sub.view]
  rw [this]

/-- **Updates-only.**  Same runs: for a live updates-only subscriber, folding the received events over the
contents at its subscribe step (`base`, which it is assumed to know already) gives the final contents. -/
theorem C03_updates_only (s₀ : Nat → Option M) (progs : Nat → List (WOp M)) (opts : Nat → SubOpts M)
    (sched : List Act) (hord : ordered (initCfg s₀ progs opts) sched = true) :
    let c : Cfg M := run (initCfg s₀ progs opts) sched
    c.quiescent = true → ∀ s, (c.subs s).live = true → (c.subs s).updatesOnly = true →
      (c.subs s).pending = [] → (c.subs s).evs.foldl applyEv (c.subs s).base = c.store := by
  intro c hq s hs _ hp
  have h := (Inv.init true s₀ progs opts).run sched hord
  have := h.view rfl s hs
  have hpubs : (run (initCfg s₀ progs opts) sched).pubs = [] := List.isEmpty_iff.mp hq
  unfold inflight at this
  rw [hpubs, hp] at this
  simpa [Sub.rawView] using this

/-- **No miss at subscribe — ALL schedules, no hypothesis.**  Every commit ordered after a live subscriber's
subscribe step (`subAt ≤ k < nextSeq`) has been handed by the bus to that subscriber's stage (`got`) or is
still owed to it; at quiescence it has been handed over.  (For a backpressured subscriber the stage passes
every event on unchanged; for a lossy one it may be merged with later changes of the same id: C09.) -/
theorem C03_no_miss_at_subscribe (s₀ : Nat → Option M) (progs : Nat → List (WOp M)) (opts : Nat → SubOpts M)
    (sched : List Act) :
    let c : Cfg M := run (initCfg s₀ progs opts) sched
    (∀ s, (c.subs s).live = true → ∀ k, (c.subs s).subAt ≤ k → k < c.nextSeq →
      k ∈ (c.subs s).got ∨ k ∈ (inflight c s).map (·.seq)) ∧
    (c.quiescent = true → ∀ s, (c.subs s).live = true → ∀ k, (c.subs s).subAt ≤ k → k < c.nextSeq →
      k ∈ (c.subs s).got) := by
  intro c
  have h := (Inv.init false s₀ progs opts).runAll sched
  refine ⟨h.nomiss, ?_⟩
  intro hq s hs k hk1 hk2
  have hpubs : (run (initCfg s₀ progs opts) sched).pubs = [] := List.isEmpty_iff.mp hq
  rcases h.nomiss s hs k hk1 hk2 with h1 | h1
  · exact h1
  · unfold inflight at h1
    rw [hpubs] at h1
    simp at h1

/-- **The bus's listener list is exact — ALL schedules** (subscribe, cancel, `collect` in any order): every live
subscriber is registered exactly once, no unregistered subscriber is listed, and no listener copy of a Send
in progress names an unregistered subscriber. -/
theorem C03_listeners_exact (s₀ : Nat → Option M) (progs : Nat → List (WOp M)) (opts : Nat → SubOpts M)
    (sched : List Act) :
    let c : Cfg M := run (initCfg s₀ progs opts) sched
    (∀ s, (c.subs s).live = true → c.listeners.count s = 1) ∧
    (∀ s, (c.subs s).registered = false → c.listeners.count s = 0) := by
  intro c
  have h := (Inv.init false s₀ progs opts).runAll sched
  exact ⟨h.lisLive, h.lisUnreg⟩

/-- **Dup harmless (backpressure).**  In an ordered run, a BACKPRESSURED live subscriber that was handed a
duplicate of its seed — a commit ordered BEFORE its subscribe step (`k < subAt`) but published after it — still
ends with exactly the projection of the store.  (For a LOSSY subscriber `ordered` forbids registering while a
committed change is still waiting for its `Bus.Send`: `C03_lossy_seed_dup_fails` shows that this cannot be dropped.
Together: duplicates of the seed are harmless exactly for backpressured subscribers.) -/
theorem C03_dup_harmless (s₀ : Nat → Option M) (progs : Nat → List (WOp M)) (opts : Nat → SubOpts M)
    (sched : List Act) (hord : ordered (initCfg s₀ progs opts) sched = true) :
    let c : Cfg M := run (initCfg s₀ progs opts) sched
    c.quiescent = true → ∀ s k, (c.subs s).live = true → (c.subs s).lossy = false →
      k ∈ (c.subs s).got → k < (c.subs s).subAt → (c.subs s).pending = [] →
      (c.subs s).view = fun i => (c.store i).map (c.subs s).mask := by
  intro c hq s k hs _ _ _ hp
  exact (C03_converges_partial s₀ progs opts sched hord).2 hq s hs hp

/-! ### Include × read mask: what the consumer of `Collection.Pull` actually folds

The forwarder (`fwdEv`) follows the event loop of `Pull`: `include` judges the STORED old / new values of the
change (an absent value is never included; a change moving an item into / out of the included set becomes an ADD /
REMOVE; a change of an item that stays excluded is dropped), only THEN the read mask is applied; seeds are the
included stored items, masked.  `obsView` is the fold of what the consumer receives. -/

omit [DecidableEq M] in
/-- **The forwarder is the included, masked image — every stream.**  For ALL include functions, read masks, start
contents and change streams linked to them (each change carries as `old` the value it replaces; non-strict: or
already holds its `new` value): folding the forwarded changes over the forwarded seed gives
`project mask (filter include (fold changes contents))`. -/
theorem C03_forwarder_include_mask (incl : Option (Nat → M → Bool)) (mask : M → M) (strict : Bool)
    (base : Nat → Option M) (evs : List (Event M)) (h : linkOK strict base evs) :
    (evs.filterMap (fwdEv incl mask)).foldl applyEv (seedView incl mask base)
      = fun i => (((evs.foldl applyEv base) i).filter (fun x => inclOpt incl i (some x))).map mask :=
  fwd_fold incl mask strict evs base h

/-- **Convergence of the observed view (include × mask), partial.**  Same runs as `C03_converges_partial` (every
`ordered` schedule, churn, any consumer pace, lossy or backpressured stage): at every moment the view a live
subscriber's consumer has folded from what it RECEIVED (seeds filtered by its include function and masked, every
change through include-then-mask, dropped changes skipped) is the included, masked image of its raw view; the
stream still owed to it is linked (each change's `old` is the value it will replace, so `include` judges the right
values); hence at quiescence, stage drained, it is exactly `project mask (filter include store)` — what `List` with
the same options returns. -/
theorem C03_converges_observed (s₀ : Nat → Option M) (progs : Nat → List (WOp M)) (opts : Nat → SubOpts M)
    (sched : List Act) (hord : ordered (initCfg s₀ progs opts) sched = true) :
    let c : Cfg M := run (initCfg s₀ progs opts) sched
    (∀ s, (c.subs s).live = true →
      (c.subs s).obsView = seedView (c.subs s).incl (c.subs s).mask (c.subs s).rawView ∧
      linkOK (c.subs s).lossy (c.subs s).rawView ((c.subs s).pending ++ inflight c s)) ∧
    (c.quiescent = true → ∀ s, (c.subs s).live = true → (c.subs s).pending = [] →
      (c.subs s).obsView = fun i =>
        ((c.store i).filter (fun x => inclOpt (c.subs s).incl i (some x))).map (c.subs s).mask) := by
  intro c
  have h := (Inv.init true s₀ progs opts).run sched hord
  refine ⟨fun s hs => ⟨h.obs rfl s hs, h.link rfl s hs⟩, ?_⟩
  intro hq s hs hp
  have hv := h.view rfl s hs
  have hpubs : (run (initCfg s₀ progs opts) sched).pubs = [] := List.isEmpty_iff.mp hq
  unfold inflight at hv
  rw [hpubs, hp] at hv
  simp only [List.flatMap_nil, List.append_nil, List.foldl_nil] at hv
  rw [h.obs rfl s hs, hv]
  rfl

/-- **PullID.**  Same runs: for a live subscriber whose item stream has not ended (no REMOVE of the item received:
neither deleted nor moved out of the included set), the last value delivered on `PullID(id)`'s stream — the item's
seed, then the new value of every change of that id — is what the folded view holds for the id; at quiescence,
stage drained, it is the included, masked stored item (and the stream is empty iff there is none). -/
theorem C03_pullid_converges (s₀ : Nat → Option M) (progs : Nat → List (WOp M)) (opts : Nat → SubOpts M)
    (sched : List Act) (hord : ordered (initCfg s₀ progs opts) sched = true) (id : Nat) :
    let c : Cfg M := run (initCfg s₀ progs opts) sched
    ∀ s, (c.subs s).live = true → (c.subs s).pullIDEnded id = false →
      ((c.subs s).pullID id).getLast? = (c.subs s).obsView id ∧
      (c.quiescent = true → (c.subs s).pending = [] →
        ((c.subs s).pullID id).getLast? =
          ((c.store id).filter (fun x => inclOpt (c.subs s).incl id (some x))).map (c.subs s).mask) := by
  intro c s hs hend
  refine ⟨pullID_last _ id hend, ?_⟩
  intro hq hp
  rw [pullID_last _ id hend, (C03_converges_observed s₀ progs opts sched hord).2 hq s hs hp]

/-- **The last event is the final value.**  Same runs, at quiescence, stage drained: for every id the consumer has
received a change of, the LAST such change carries exactly what the store holds for that id (`none`: the item is gone)
— for a `Value` (the single id 0): the last event delivered is its final value; through the forwarder the consumer sees
it under its read mask. -/
theorem C03_last_event_final (s₀ : Nat → Option M) (progs : Nat → List (WOp M)) (opts : Nat → SubOpts M)
    (sched : List Act) (hord : ordered (initCfg s₀ progs opts) sched = true) :
    let c : Cfg M := run (initCfg s₀ progs opts) sched
    c.quiescent = true → ∀ s, (c.subs s).live = true → (c.subs s).pending = [] →
      ∀ i e, ((c.subs s).evs.filter (fun x => x.id == i)).getLast? = some e → e.new = c.store i := by
  intro c hq s hs hp i e he
  have h := (Inv.init true s₀ progs opts).run sched hord
  have hv := h.view rfl s hs
  have hpubs : (run (initCfg s₀ progs opts) sched).pubs = [] := List.isEmpty_iff.mp hq
  unfold inflight at hv
  rw [hpubs, hp] at hv
  simp only [List.flatMap_nil, List.append_nil, List.foldl_nil] at hv
  have hl := foldl_applyEv_last (c.subs s).evs i (c.subs s).base
  rw [he] at hl
  simp only [] at hl
  rw [← hl]
  exact congrFun hv i

omit [DecidableEq M] in
/-- **The lossy stage of a `Value` is `DropExcess`.**  On a stream of one id without removals (a `Value`: single id,
no Delete) the merge stage holds at most ONE pending change and receiving a change replaces it by the newest value:
exactly `minibus.DropExcess` ("when the consumer receives, it will always get the most recent message"). -/
theorem C03_value_stage_is_drop_excess (P : List (Event M)) (e : Event M)
    (hid : ∀ a, a ∈ P → a.id = e.id) (hlen : P.length ≤ 1) (hnew : e.new.isSome = true) :
    ∃ e', mergeInto P e = [e'] ∧ e'.id = e.id ∧ e'.new = e.new := by
  match P, hlen with
  | [], _ => exact ⟨e, rfl, rfl, rfl⟩
  | [a], _ =>
    have ha : a.id = e.id := hid a List.mem_cons_self
    have hnone : e.new.isNone = false := by
      cases hn : e.new with
      | none => simp [hn] at hnew
      | some x => rfl
    refine ⟨{ e with isAdd := a.isAdd, old := a.old }, ?_, rfl, rfl⟩
    simp [mergeInto, ha, hnone]

/-! ### Witnesses on integers -/

def plain (lossy : Bool) : SubOpts Int := ⟨false, lossy, id, none⟩

/-- writer 0 sets id 0 to 1, writer 1 sets id 0 to 2 -/
def twoWriters : Nat → List (WOp Int) := fun t =>
  if t = 0 then [.upd 0 (fun _ => some 1)] else if t = 1 then [.upd 0 (fun _ => some 2)] else []

/-- subscribe; W0 commits 1; W1 commits 2; W1 publishes; W0 publishes; the consumer receives after each delivery -/
def staleSched : List Act :=
  [.sub 0, .commit 0, .commit 1, .snap 1, .deliver 1, .recv 0, .snap 0, .deliver 0, .recv 0]

def staleRun : Cfg Int := run (initCfg (fun _ => none) twoWriters (fun _ => plain false)) staleSched

/-- **`C03_converges` fails on the code as it is (1)**: a quiescent configuration, stage drained, in which the
backpressured subscriber's view (id 0 ↦ 1) differs from the store (id 0 ↦ 2); the last event carries 1. -/
theorem C03_converges_fails :
    staleRun.quiescent = true ∧ (staleRun.subs 0).live = true ∧ (staleRun.subs 0).pending = [] ∧
    (staleRun.subs 0).view 0 = some 1 ∧ staleRun.store 0 = some 2 ∧
    (staleRun.subs 0).evs.map (·.new) = [some 2, some 1] ∧
    ordered (initCfg (fun _ => none) twoWriters (fun _ => plain false)) staleSched = false := by
  decide

/-- one writer: Add(0 ↦ 10) then Delete(0) -/
def addThenDelete : Nat → List (WOp Int) := fun t =>
  if t = 0 then [.upd 0 (fun _ => some 10), .del 0 (fun _ => true)] else []

/-- the Add commits; a LOSSY subscriber takes its snapshot (which has id 0) and listens; the Add is published (a
duplicate of the seed) into the paused consumer's merge stage; the Delete commits and is published; only then
does the consumer drain -/
def seedDupSched : List Act :=
  [.commit 0, .sub 0, .snap 0, .deliver 0, .commit 0, .deliver 0, .recv 0, .recv 0]

def seedDupRun : Cfg Int := run (initCfg (fun _ => none) addThenDelete (fun _ => plain true)) seedDupSched

/-- **`C03_converges` fails on the code as it is (2): a duplicate of the seed is NOT harmless under merging.**
Single writer.  The merge stage cancels the duplicate ADD against the REMOVE, nothing is left to deliver, the
drained view keeps id 0 although the store has deleted it.  The same schedule with a backpressured subscriber
is `ordered` and converges (next example). -/
theorem C03_lossy_seed_dup_fails :
    seedDupRun.quiescent = true ∧ (seedDupRun.subs 0).live = true ∧ (seedDupRun.subs 0).pending = [] ∧
    (seedDupRun.subs 0).evs = [] ∧ (seedDupRun.subs 0).view 0 = some 10 ∧ seedDupRun.store 0 = none ∧
    (seedDupRun.subs 0).got = [0, 1] ∧
    ordered (initCfg (fun _ => none) addThenDelete (fun _ => plain true)) seedDupSched = false := by
  decide

def seedDupSchedBP : List Act :=
  [.commit 0, .sub 0, .snap 0, .deliver 0, .recv 0, .commit 0, .deliver 0, .recv 0]

def seedDupRunBP : Cfg Int := run (initCfg (fun _ => none) addThenDelete (fun _ => plain false)) seedDupSchedBP

/-- non-vacuity of `C03_dup_harmless`: the backpressured subscriber is handed the duplicate (`0 < subAt = 1`),
the run is ordered, and the view converges (id 0 removed) -/
example :
    ordered (initCfg (fun _ => none) addThenDelete (fun _ => plain false)) seedDupSchedBP = true ∧
    seedDupRunBP.quiescent = true ∧ (seedDupRunBP.subs 0).subAt = 1 ∧ (seedDupRunBP.subs 0).got = [0, 1] ∧
    (seedDupRunBP.subs 0).pending = [] ∧ (seedDupRunBP.subs 0).view 0 = none ∧ seedDupRunBP.store 0 = none := by
  decide

/-! ### Non-vacuity of `ordered`: overlapping writers, churn with `collect`, a slow lossy consumer, a read mask -/

def orderedSched : List Act :=
  [.commit 0, .sub 0, .commit 1, .snap 0, .deliver 0, .recv 0, .snap 0, .sub 1, .deliver 0, .recv 0,
   .deliver 0, .recv 1]

def orderedOpts : Nat → SubOpts Int := fun s => if s = 1 then ⟨true, false, id, none⟩ else plain false

def orderedRun : Cfg Int := run (initCfg (fun _ => none) twoWriters orderedOpts) orderedSched

/-- two writers overlapping, a seeded subscriber registering between a commit and its publication (it gets
the duplicate), an updates-only subscriber registering mid-publication: ordered, quiescent, both views = store -/
example :
    ordered (initCfg (fun _ => none) twoWriters orderedOpts) orderedSched = true ∧
    orderedRun.quiescent = true ∧ orderedRun.store 0 = some 2 ∧
    (orderedRun.subs 0).evs.map (·.new) = [some 1, some 2] ∧ (orderedRun.subs 0).view 0 = some 2 ∧
    (orderedRun.subs 1).live = true ∧ (orderedRun.subs 1).view 0 = some 2 := by
  decide

/-- writer 0 sets id 0, writer 1 sets id 1 -/
def twoIds : Nat → List (WOp Int) := fun t =>
  if t = 0 then [.upd 0 (fun _ => some 1)] else if t = 1 then [.upd 1 (fun _ => some 2)] else []

/-- the schedule of `C03_converges_fails` (W1's publication overtakes W0's) with the writers on DIFFERENT ids: the
run is `ordered` (only publications of one id must keep their commit order) and both subscribers converge -/
example :
    ordered (initCfg (fun _ => none) twoIds (fun s => plain (s == 1)))
      [.sub 0, .sub 1, .commit 0, .commit 1, .snap 1, .deliver 1, .recv 0, .deliver 1, .snap 0, .deliver 0, .recv 0,
       .deliver 0, .recv 1, .recv 1] = true ∧
    let c := run (initCfg (fun _ => none) twoIds (fun s => plain (s == 1)))
      [.sub 0, .sub 1, .commit 0, .commit 1, .snap 1, .deliver 1, .recv 0, .deliver 1, .snap 0, .deliver 0, .recv 0,
       .deliver 0, .recv 1, .recv 1]
    c.quiescent = true ∧ (c.subs 0).evs.map (·.id) = [1, 0] ∧ (c.subs 0).view 0 = some 1 ∧ (c.subs 0).view 1 = some 2 ∧
    (c.subs 1).pending = [] ∧ (c.subs 1).view 0 = some 1 ∧ (c.subs 1).view 1 = some 2 := by
  decide

/-- one writer, three writes of id 0 and a delete of id 1 -/
def churnProg : Nat → List (WOp Int) := fun t =>
  if t = 0 then [.upd 0 (fun _ => some 11), .upd 0 (fun _ => some 12), .upd 1 (fun _ => some 13)] else []

/-- A and C subscribe; a full write; A goes away; next write: listener copy taken, B subscribes mid-publication,
the Send meets the dead listener, serves C and collects (A leaves the bus, B stays); a further write reaches B -/
def churnSched : List Act :=
  [.sub 0, .sub 1, .commit 0, .snap 0, .deliver 0, .recv 0, .deliver 0, .recv 1, .cancel 0,
   .commit 0, .snap 0, .sub 2, .deliver 0, .deliver 0, .recv 1,
   .commit 0, .snap 0, .deliver 0, .recv 1, .deliver 0, .recv 2]

def churnRun : Cfg Int := run (initCfg (fun _ => none) churnProg (fun _ => plain false)) churnSched

example :
    ordered (initCfg (fun _ => none) churnProg (fun _ => plain false)) churnSched = true ∧
    churnRun.quiescent = true ∧ churnRun.listeners = [1, 2] ∧ (churnRun.subs 0).live = false ∧
    (churnRun.subs 2).live = true ∧ (churnRun.subs 2).view 0 = some 12 ∧ (churnRun.subs 2).view 1 = some 13 ∧
    (churnRun.subs 1).view 0 = some 12 ∧ churnRun.store 1 = some 13 := by
  decide

/-- a lossy subscriber whose consumer sleeps through add, update, delete, re-add of one id and then drains one
merged event; and a masked subscriber (mask = clamp to 0) -/
def slowProg : Nat → List (WOp Int) := fun t =>
  if t = 0 then [.upd 0 (fun _ => some 1), .upd 0 (fun _ => some 2), .del 0 (fun _ => true),
                 .upd 0 (fun _ => some 4)] else []

def slowSched : List Act :=
  [.sub 0, .sub 1, .commit 0, .snap 0, .deliver 0, .deliver 0, .recv 1,
   .commit 0, .snap 0, .deliver 0, .deliver 0, .recv 1,
   .commit 0, .deliver 0, .deliver 0, .recv 1,
   .commit 0, .snap 0, .deliver 0, .deliver 0, .recv 1, .recv 0]

def slowOpts : Nat → SubOpts Int := fun s => if s = 0 then plain true else ⟨false, false, fun _ => 0, none⟩

def slowRun : Cfg Int := run (initCfg (fun _ => none) slowProg slowOpts) slowSched

example :
    ordered (initCfg (fun _ => none) slowProg slowOpts) slowSched = true ∧
    slowRun.quiescent = true ∧ (slowRun.subs 0).evs.length = 1 ∧ (slowRun.subs 0).got = [0, 1, 2, 3] ∧
    (slowRun.subs 0).view 0 = some 4 ∧ (slowRun.subs 1).evs.length = 4 ∧ (slowRun.subs 1).view 0 = some 0 ∧
    slowRun.store 0 = some 4 := by
  decide

/-! ### Non-vacuity of the include × mask theorems (pairs of integers; mask hides the field the include reads) -/

/-- include = first field even; the read mask keeps only the second field -/
def evenFirst : Option (Nat → Int × Int → Bool) := some (fun _ v => v.1 % 2 == 0)
def onlySecond : Int × Int → Int × Int := fun v => (0, v.2)

def inclProg : Nat → List (WOp (Int × Int)) := fun t =>
  if t = 0 then [.upd 0 (fun _ => some (2, 7)), .upd 1 (fun _ => some (3, 8)), .upd 0 (fun _ => some (5, 9)),
                 .upd 1 (fun _ => some (4, 6)), .upd 2 (fun _ => some (6, 1)), .del 2 (fun _ => true)] else []

def inclOpts : Nat → SubOpts (Int × Int) := fun s =>
  if s = 0 then ⟨false, false, onlySecond, evenFirst⟩ else ⟨false, true, onlySecond, evenFirst⟩

/-- a backpressured consumer receiving at once and a lossy one draining at the end -/
def inclSched : List Act :=
  [.sub 0, .sub 1,
   .commit 0, .snap 0, .deliver 0, .recv 0, .deliver 0, .commit 0, .snap 0, .deliver 0, .recv 0, .deliver 0,
   .commit 0, .snap 0, .deliver 0, .recv 0, .deliver 0, .commit 0, .snap 0, .deliver 0, .recv 0, .deliver 0,
   .commit 0, .snap 0, .deliver 0, .recv 0, .deliver 0, .commit 0, .deliver 0, .recv 0, .deliver 0,
   .recv 1, .recv 1, .recv 1]

def inclRun : Cfg (Int × Int) := run (initCfg (fun i => if i = 0 then some (1, 1) else none) inclProg inclOpts) inclSched

/-- id 0: seeded excluded, ADDed by an update, REMOVEd by the next; id 1: a dropped ADD, then ADD by update; id 2: ADD
and REMOVE (cancelled in the lossy stage).  Ordered, quiescent, both consumers hold {1 ↦ (0,6)}: the masked image of
the included store items, although the mask hides the field the include function reads. -/
example :
    ordered (initCfg (fun i => if i = 0 then some (1, 1) else none) inclProg inclOpts) inclSched = true ∧
    inclRun.quiescent = true ∧ (inclRun.subs 1).pending = [] ∧
    inclRun.store 0 = some (5, 9) ∧ inclRun.store 1 = some (4, 6) ∧ inclRun.store 2 = none ∧
    (inclRun.subs 0).obsView 0 = none ∧ (inclRun.subs 0).obsView 1 = some (0, 6) ∧ (inclRun.subs 0).obsView 2 = none ∧
    (inclRun.subs 1).obsView 0 = none ∧ (inclRun.subs 1).obsView 1 = some (0, 6) ∧
    (inclRun.subs 0).obs.map (fun e => (e.id, e.new)) =
      [(0, some (0, 7)), (0, none), (1, some (0, 6)), (2, some (0, 1)), (2, none)] ∧
    (inclRun.subs 0).pullID 1 = [(0, 6)] ∧ (inclRun.subs 0).pullIDEnded 1 = false ∧
    (inclRun.subs 0).pullID 0 = [(0, 7)] ∧ (inclRun.subs 0).pullIDEnded 0 = true := by
  decide

/-- the order of the two steps matters: judging the MASKED change (mask first, then include) forwards an update of an
item that the include function, reading the stored values, keeps excluded -/
example :
    let e : Event (Int × Int) := ⟨0, some (1, 1), some (3, 2), false, 0⟩
    fwdEv evenFirst onlySecond e = none ∧
    (fwdEv evenFirst id { e with old := e.old.map onlySecond, new := e.new.map onlySecond }).isSome = true := by
  decide

/-- a Delete publishes under the lock: a commit attempted meanwhile is disabled (the step is a no-op) -/
example :
    let progs : Nat → List (WOp Int) := fun t =>
      if t = 0 then [.del 0 (fun _ => true)] else if t = 1 then [.upd 0 (fun _ => some 5)] else []
    let c₀ : Cfg Int := initCfg (fun i => if i = 0 then some 3 else none) progs (fun _ => plain false)
    (run c₀ [.sub 0, .commit 0, .commit 1]).store 0 = none ∧
    (run c₀ [.sub 0, .commit 0, .commit 1]).lock = some 0 ∧
    (run c₀ [.sub 0, .commit 0, .deliver 0, .commit 1]).store 0 = some 5 := by
  decide

end ScVerif.C03
