import ScVerif.C03.Inv2
/-!
# C03 — property theorems

Property (fixed text): "For a Pull or PullID subscription opened at any moment relative to concurrent
writers, with any updates-only, backpressure and read-mask settings and a reader that keeps receiving,
applying the received events in order to a view (seed events first) yields, once writers stop, exactly what
Get or List return. No change committed around the moment of subscribing is missed or duplicated into a
wrong state, no event overtakes a later commit so that the view ends stale, and the last event delivered for
a Value is its final value."

The model (`Model.lean`) has: any number of writers (arbitrary read-modify-write functions, conditional
deletes), publications as commit ▸ listener copy ▸ per-listener delivery ▸ `Bus.collect`, Delete publishing
under the lock, subscribers that are seeded or updates-only, backpressured (forwarder holds one event, the bus
blocks) or lossy (merge stage: one pending change per id, ADD+REMOVE cancels), with a read mask (a
projection), that may be cancelled at any step, and consumers of ANY pace (`recv` steps).

FULL-STRENGTH STATEMENT (`C03_converges`): for ALL schedules, at quiescence every live subscriber that has
drained its stage sees the projection of the store.  This is FALSE for the code as it is, in two ways, both
recorded in known_findings/C03.json and replayed on the real code by the check:
* `C03_converges_fails` — publications of two writers delivered in the opposite order of their commits;
* `C03_lossy_seed_dup_fails` — single writer: a lossy subscriber seeded with a change that is published only
  afterwards; the merge stage cancels that duplicate ADD against a later REMOVE.
What is proved for every schedule satisfying the explicit decidable hypothesis `ordered` is
`C03_converges_partial`; `C03_no_miss_at_subscribe` holds for ALL schedules; `C03_dup_harmless` and
`C03_lossy_seed_dup_fails` say exactly where a duplicate of the seed is harmless and where it is not.
Only property theorems and non-vacuity examples live in this file.
-/
namespace ScVerif.C03
open ScVerif.C02 (setAt)

variable {M : Type} [DecidableEq M]

/-- **Convergence, partial** (publications delivered in commit order; subscriber churn, any consumer pace, lossy
or backpressured stage, read masks).  For all contents, writer programs, subscriber options and every schedule
of commit / snapshot / deliver / subscribe / cancel / consumer-receive steps that is `ordered`:
at every moment, for every LIVE subscriber (registered, not cancelled) its raw view followed by what sits in
its stage (forwarder in hand, or the merger's pending changes after any number of merges and ADD+REMOVE
cancellations) followed by the events still owed to it is the store; hence once nothing is in flight and its stage
is drained, what its consumer sees is exactly the projection of the store under its own read mask. -/
theorem C03_converges_partial (s₀ : Nat → Option M) (progs : Nat → List (WOp M)) (opts : Nat → SubOpts M)
    (sched : List Act) (hord : ordered (initCfg s₀ progs opts) sched = true) :
    let c : Cfg M := run (initCfg s₀ progs opts) sched
    (∀ s, (c.subs s).live = true →
      ((c.subs s).pending ++ inflight c s).foldl applyEv (c.subs s).rawView = c.store) ∧
    (c.quiescent = true → ∀ s, (c.subs s).live = true → (c.subs s).pending = [] →
      (c.subs s).view = fun i => (c.store i).map (c.subs s).mask) := by
  intro c
  have h := (Inv.init true s₀ progs opts).run sched hord
  refine ⟨h.view rfl, ?_⟩
  intro hq s hs hp
  have := h.view rfl s hs
  have hpubs : (run (initCfg s₀ progs opts) sched).pubs = [] := List.isEmpty_iff.mp hq
  unfold inflight at this
  rw [hpubs, hp] at this
  simp only [List.flatMap_nil, List.append_nil, List.foldl_nil] at this
  funext i
  simp only [Sub.view]
  rw [this]

/-- **Updates-only.**  Same runs: for a live updates-only subscriber, folding the received events over the
contents at its subscribe step (`base`, which it is assumed to know already) gives the final contents. -/
theorem C03_updates_only (s₀ : Nat → Option M) (progs : Nat → List (WOp M)) (opts : Nat → SubOpts M)
    (sched : List Act) (hord : ordered (initCfg s₀ progs opts) sched = true) :
    let c : Cfg M := run (initCfg s₀ progs opts) sched
    c.quiescent = true → ∀ s, (c.subs s).live = true → (c.subs s).updatesOnly = true →
      (c.subs s).pending = [] → (c.subs s).evs.foldl applyEv (c.subs s).base = c.store := by
  intro c hq s hs _ hp
  have h := (Inv.init true s₀ progs opts).run sched hord
  have := h.view rfl s hs
  have hpubs : (run (initCfg s₀ progs opts) sched).pubs = [] := List.isEmpty_iff.mp hq
  unfold inflight at this
  rw [hpubs, hp] at this
  simpa [Sub.rawView] using this

/-- **No miss at subscribe — ALL schedules, no hypothesis.**  Every commit ordered after a live subscriber's
subscribe step (`subAt ≤ k < nextSeq`) has been handed by the bus to that subscriber's stage (`got`) or is
still owed to it; at quiescence it has been handed over.  (For a backpressured subscriber the stage passes
every event on unchanged; for a lossy one it may be merged with later changes of the same id: C09.) -/
theorem C03_no_miss_at_subscribe (s₀ : Nat → Option M) (progs : Nat → List (WOp M)) (opts : Nat → SubOpts M)
    (sched : List Act) :
    let c : Cfg M := run (initCfg s₀ progs opts) sched
    (∀ s, (c.subs s).live = true → ∀ k, (c.subs s).subAt ≤ k → k < c.nextSeq →
      k ∈ (c.subs s).got ∨ k ∈ (inflight c s).map (·.seq)) ∧
    (c.quiescent = true → ∀ s, (c.subs s).live = true → ∀ k, (c.subs s).subAt ≤ k → k < c.nextSeq →
      k ∈ (c.subs s).got) := by
  intro c
  have h := (Inv.init false s₀ progs opts).runAll sched
  refine ⟨h.nomiss, ?_⟩
  intro hq s hs k hk1 hk2
  have hpubs : (run (initCfg s₀ progs opts) sched).pubs = [] := List.isEmpty_iff.mp hq
  rcases h.nomiss s hs k hk1 hk2 with h1 | h1
  · exact h1
  · unfold inflight at h1
    rw [hpubs] at h1
    simp at h1

/-- **The bus's listener list is exact — ALL schedules** (subscribe, cancel, `collect` in any order): every live
subscriber is registered exactly once, no unregistered subscriber is listed, and no listener copy of a Send
in progress names an unregistered subscriber. -/
theorem C03_listeners_exact (s₀ : Nat → Option M) (progs : Nat → List (WOp M)) (opts : Nat → SubOpts M)
    (sched : List Act) :
    let c : Cfg M := run (initCfg s₀ progs opts) sched
    (∀ s, (c.subs s).live = true → c.listeners.count s = 1) ∧
    (∀ s, (c.subs s).registered = false → c.listeners.count s = 0) := by
  intro c
  have h := (Inv.init false s₀ progs opts).runAll sched
  exact ⟨h.lisLive, h.lisUnreg⟩

/-- **Dup harmless (backpressure).**  In an ordered run, a BACKPRESSURED live subscriber that was handed a
duplicate of its seed — a commit ordered BEFORE its subscribe step (`k < subAt`) but published after it — still
ends with exactly the projection of the store.  (For a LOSSY subscriber `ordered` forbids registering while a
committed change is still waiting for its `Bus.Send`: `C03_lossy_seed_dup_fails` shows that this cannot be dropped.
Together: duplicates of the seed are harmless exactly for backpressured subscribers.) -/
theorem C03_dup_harmless (s₀ : Nat → Option M) (progs : Nat → List (WOp M)) (opts : Nat → SubOpts M)
    (sched : List Act) (hord : ordered (initCfg s₀ progs opts) sched = true) :
    let c : Cfg M := run (initCfg s₀ progs opts) sched
    c.quiescent = true → ∀ s k, (c.subs s).live = true → (c.subs s).lossy = false →
      k ∈ (c.subs s).got → k < (c.subs s).subAt → (c.subs s).pending = [] →
      (c.subs s).view = fun i => (c.store i).map (c.subs s).mask := by
  intro c hq s k hs _ _ _ hp
  exact (C03_converges_partial s₀ progs opts sched hord).2 hq s hs hp

/-! ### Witnesses on integers -/

def plain (lossy : Bool) : SubOpts Int := ⟨false, lossy, id⟩

/-- writer 0 sets id 0 to 1, writer 1 sets id 0 to 2 -/
def twoWriters : Nat → List (WOp Int) := fun t =>
  if t = 0 then [.upd 0 (fun _ => some 1)] else if t = 1 then [.upd 0 (fun _ => some 2)] else []

/-- subscribe; W0 commits 1; W1 commits 2; W1 publishes; W0 publishes; the consumer receives after each delivery -/
def staleSched : List Act :=
  [.sub 0, .commit 0, .commit 1, .snap 1, .deliver 1, .recv 0, .snap 0, .deliver 0, .recv 0]

def staleRun : Cfg Int := run (initCfg (fun _ => none) twoWriters (fun _ => plain false)) staleSched

/-- **`C03_converges` fails on the code as it is (1)**: a quiescent configuration, stage drained, in which the
backpressured subscriber's view (id 0 ↦ 1) differs from the store (id 0 ↦ 2); the last event carries 1. -/
theorem C03_converges_fails :
    staleRun.quiescent = true ∧ (staleRun.subs 0).live = true ∧ (staleRun.subs 0).pending = [] ∧
    (staleRun.subs 0).view 0 = some 1 ∧ staleRun.store 0 = some 2 ∧
    (staleRun.subs 0).evs.map (·.new) = [some 2, some 1] ∧
    ordered (initCfg (fun _ => none) twoWriters (fun _ => plain false)) staleSched = false := by
  decide

/-- one writer: Add(0 ↦ 10) then Delete(0) -/
def addThenDelete : Nat → List (WOp Int) := fun t =>
  if t = 0 then [.upd 0 (fun _ => some 10), .del 0 (fun _ => true)] else []

/-- the Add commits; a LOSSY subscriber takes its snapshot (which has id 0) and listens; the Add is published (a
duplicate of the seed) into the paused consumer's merge stage; the Delete commits and is published; only then
does the consumer drain -/
def seedDupSched : List Act :=
  [.commit 0, .sub 0, .snap 0, .deliver 0, .commit 0, .deliver 0, .recv 0, .recv 0]

def seedDupRun : Cfg Int := run (initCfg (fun _ => none) addThenDelete (fun _ => plain true)) seedDupSched

/-- **`C03_converges` fails on the code as it is (2): a duplicate of the seed is NOT harmless under merging.**
Single writer.  The merge stage cancels the duplicate ADD against the REMOVE, nothing is left to deliver, the
drained view keeps id 0 although the store has deleted it.  The same schedule with a backpressured subscriber
is `ordered` and converges (next example). -/
theorem C03_lossy_seed_dup_fails :
    seedDupRun.quiescent = true ∧ (seedDupRun.subs 0).live = true ∧ (seedDupRun.subs 0).pending = [] ∧
    (seedDupRun.subs 0).evs = [] ∧ (seedDupRun.subs 0).view 0 = some 10 ∧ seedDupRun.store 0 = none ∧
    (seedDupRun.subs 0).got = [0, 1] ∧
    ordered (initCfg (fun _ => none) addThenDelete (fun _ => plain true)) seedDupSched = false := by
  decide

def seedDupSchedBP : List Act :=
  [.commit 0, .sub 0, .snap 0, .deliver 0, .recv 0, .commit 0, .deliver 0, .recv 0]

def seedDupRunBP : Cfg Int := run (initCfg (fun _ => none) addThenDelete (fun _ => plain false)) seedDupSchedBP

/-- non-vacuity of `C03_dup_harmless`: the backpressured subscriber is handed the duplicate (`0 < subAt = 1`),
the run is ordered, and the view converges (id 0 removed) -/
example :
    ordered (initCfg (fun _ => none) addThenDelete (fun _ => plain false)) seedDupSchedBP = true ∧
    seedDupRunBP.quiescent = true ∧ (seedDupRunBP.subs 0).subAt = 1 ∧ (seedDupRunBP.subs 0).got = [0, 1] ∧
    (seedDupRunBP.subs 0).pending = [] ∧ (seedDupRunBP.subs 0).view 0 = none ∧ seedDupRunBP.store 0 = none := by
  decide

/-! ### Non-vacuity of `ordered`: overlapping writers, churn with `collect`, a slow lossy consumer, a read mask -/

def orderedSched : List Act :=
  [.commit 0, .sub 0, .commit 1, .snap 0, .deliver 0, .recv 0, .snap 0, .sub 1, .deliver 0, .recv 0,
   .deliver 0, .recv 1]

def orderedOpts : Nat → SubOpts Int := fun s => if s = 1 then ⟨true, false, id⟩ else plain false

def orderedRun : Cfg Int := run (initCfg (fun _ => none) twoWriters orderedOpts) orderedSched

/-- two writers overlapping, a seeded subscriber registering between a commit and its publication (it gets
the duplicate), an updates-only subscriber registering mid-publication: ordered, quiescent, both views = store -/
example :
    ordered (initCfg (fun _ => none) twoWriters orderedOpts) orderedSched = true ∧
    orderedRun.quiescent = true ∧ orderedRun.store 0 = some 2 ∧
    (orderedRun.subs 0).evs.map (·.new) = [some 1, some 2] ∧ (orderedRun.subs 0).view 0 = some 2 ∧
    (orderedRun.subs 1).live = true ∧ (orderedRun.subs 1).view 0 = some 2 := by
  decide

/-- one writer, three writes of id 0 and a delete of id 1 -/
def churnProg : Nat → List (WOp Int) := fun t =>
  if t = 0 then [.upd 0 (fun _ => some 11), .upd 0 (fun _ => some 12), .upd 1 (fun _ => some 13)] else []

/-- A and C subscribe; a full write; A goes away; next write: listener copy taken, B subscribes mid-publication,
the Send meets the dead listener, serves C and collects (A leaves the bus, B stays); a further write reaches B -/
def churnSched : List Act :=
  [.sub 0, .sub 1, .commit 0, .snap 0, .deliver 0, .recv 0, .deliver 0, .recv 1, .cancel 0,
   .commit 0, .snap 0, .sub 2, .deliver 0, .deliver 0, .recv 1,
   .commit 0, .snap 0, .deliver 0, .recv 1, .deliver 0, .recv 2]

def churnRun : Cfg Int := run (initCfg (fun _ => none) churnProg (fun _ => plain false)) churnSched

example :
    ordered (initCfg (fun _ => none) churnProg (fun _ => plain false)) churnSched = true ∧
    churnRun.quiescent = true ∧ churnRun.listeners = [1, 2] ∧ (churnRun.subs 0).live = false ∧
    (churnRun.subs 2).live = true ∧ (churnRun.subs 2).view 0 = some 12 ∧ (churnRun.subs 2).view 1 = some 13 ∧
    (churnRun.subs 1).view 0 = some 12 ∧ churnRun.store 1 = some 13 := by
  decide

/-- a lossy subscriber whose consumer sleeps through add, update, delete, re-add of one id and then drains one
merged event; and a masked subscriber (mask = clamp to 0) -/
def slowProg : Nat → List (WOp Int) := fun t =>
  if t = 0 then [.upd 0 (fun _ => some 1), .upd 0 (fun _ => some 2), .del 0 (fun _ => true),
                 .upd 0 (fun _ => some 4)] else []

def slowSched : List Act :=
  [.sub 0, .sub 1, .commit 0, .snap 0, .deliver 0, .deliver 0, .recv 1,
   .commit 0, .snap 0, .deliver 0, .deliver 0, .recv 1,
   .commit 0, .deliver 0, .deliver 0, .recv 1,
   .commit 0, .snap 0, .deliver 0, .deliver 0, .recv 1, .recv 0]

def slowOpts : Nat → SubOpts Int := fun s => if s = 0 then plain true else ⟨false, false, fun _ => 0⟩

def slowRun : Cfg Int := run (initCfg (fun _ => none) slowProg slowOpts) slowSched

example :
    ordered (initCfg (fun _ => none) slowProg slowOpts) slowSched = true ∧
    slowRun.quiescent = true ∧ (slowRun.subs 0).evs.length = 1 ∧ (slowRun.subs 0).got = [0, 1, 2, 3] ∧
    (slowRun.subs 0).view 0 = some 4 ∧ (slowRun.subs 1).evs.length = 4 ∧ (slowRun.subs 1).view 0 = some 0 ∧
    slowRun.store 0 = some 4 := by
  decide

/-- a Delete publishes under the lock: a commit attempted meanwhile is disabled (the step is a no-op) -/
example :
    let progs : Nat → List (WOp Int) := fun t =>
      if t = 0 then [.del 0 (fun _ => true)] else if t = 1 then [.upd 0 (fun _ => some 5)] else []
    let c₀ : Cfg Int := initCfg (fun i => if i = 0 then some 3 else none) progs (fun _ => plain false)
    (run c₀ [.sub 0, .commit 0, .commit 1]).store 0 = none ∧
    (run c₀ [.sub 0, .commit 0, .commit 1]).lock = some 0 ∧
    (run c₀ [.sub 0, .commit 0, .deliver 0, .commit 1]).store 0 = some 5 := by
  decide

end ScVerif.C03
