import ScVerif.C03.Model
/-!
# C03 — id interceptors: definitions (core only; the driver links this file)

`resource.WithIDInterceptor(f)`: `Update`, `Delete`, `Get`, `PullID` (and `NewCollection` for its initial records) all
begin with `id = c.idInterceptor(id)` and use the image for everything after: the look-up, the map write AND the
`CollectionChange.Id` of the publication.
-/
namespace ScVerif.C03

variable {M : Type}

/-- the id a call names -/
def WOp.id : WOp M → Nat
  | .upd i _ => i
  | .del i _ => i

/-- the first statement of `Update` / `Delete`: `id = c.idInterceptor(id)`; everything after it uses the image -/
def WOp.canon (icpt : Nat → Nat) : WOp M → WOp M
  | .upd r f => .upd (icpt r) f
  | .del r p => .del (icpt r) p

theorem WOp.canon_id (icpt : Nat → Nat) (o : WOp M) : (o.canon icpt).id = icpt o.id := by
  cases o <;> rfl

/-- callers' programs (ids in the callers' spellings) on a collection with the id interceptor `icpt`;
`NewCollection` stores an initial record under the image of its id: `s₀` is given by stored id -/
def initI (icpt : Nat → Nat) (s₀ : Nat → Option M) (progs : Nat → List (WOp M)) (opts : Nat → SubOpts M) : Cfg M :=
  initCfg s₀ (fun t => (progs t).map (WOp.canon icpt)) opts

end ScVerif.C03
