import ScVerif.C03.Inv2
import ScVerif.C03.Equiv
/-!
# C03 — the stream a live subscriber has RECEIVED is linked to its seed

`Rcv`: for every live subscriber the changes its consumer has taken so far, applied in order to the contents at its
subscribe step, each carry as `old` the value the view holds for their id or (duplicates of the seed) already hold
their `new` value.  This is what the equivalence check of `Collection.Pull` (the change's own old value against its
new value) needs.  Kept by every step of an `ordered` run (uses `Inv.link` at the receive step).
-/
set_option linter.unusedSectionVars false
set_option linter.unusedVariables false
namespace ScVerif.C03
open ScVerif.C02 (setAt setAt_same setAt_other)

variable {M : Type} [DecidableEq M]

def Rcv (c : Cfg M) : Prop :=
  ∀ s, (c.subs s).live = true → linkOK false (c.subs s).base (c.subs s).evs

theorem stepCommit_subs (c : Cfg M) (t : Nat) : (stepCommit c t).subs = c.subs := by
  unfold stepCommit
  simp only [Cfg.popOp]
  repeat' split
  all_goals rfl

theorem stepSnap_subs (c : Cfg M) (k : Nat) : (stepSnap c k).subs = c.subs := by
  unfold stepSnap
  simp only [Cfg.finishPub]
  repeat' split
  all_goals rfl

theorem accept_frame (sb : Sub M) (e : Event M) :
    (sb.accept e).evs = sb.evs ∧ (sb.accept e).base = sb.base ∧ (sb.accept e).live = sb.live := by
  simp [Sub.accept, Sub.live]

theorem stepDeliver_frame (c : Cfg M) (k s : Nat) :
    ((stepDeliver c k).subs s).evs = (c.subs s).evs ∧ ((stepDeliver c k).subs s).base = (c.subs s).base ∧
    ((stepDeliver c k).subs s).live = (c.subs s).live := by
  unfold stepDeliver
  simp only [Cfg.finishPub]
  repeat' split
  all_goals first
    | exact ⟨rfl, rfl, rfl⟩
    | (simp only [setAt]; split
       · next h => subst h; exact accept_frame _ _
       · exact ⟨rfl, rfl, rfl⟩)

theorem stepSub_other (c : Cfg M) (s s' : Nat) (h : s' ≠ s) : (stepSub c s).subs s' = c.subs s' := by
  unfold stepSub
  simp only []
  split
  · rfl
  · exact setAt_other _ _ h

theorem stepSub_same (c : Cfg M) (s : Nat) : stepSub c s = c ∨ ((stepSub c s).subs s).evs = [] := by
  unfold stepSub
  simp only []
  split
  · left; rfl
  · right; simp only [setAt_same]

theorem stepCancel_other (c : Cfg M) (s s' : Nat) (h : s' ≠ s) : (stepCancel c s).subs s' = c.subs s' := by
  unfold stepCancel
  simp only []
  split
  · exact setAt_other _ _ h
  · rfl

theorem stepCancel_same (c : Cfg M) (s : Nat) : stepCancel c s = c ∨ ((stepCancel c s).subs s).live = false := by
  unfold stepCancel
  simp only []
  split
  · right; simp [setAt_same, Sub.live]
  · left; rfl

theorem stepRecv_other (c : Cfg M) (s s' : Nat) (h : s' ≠ s) : (stepRecv c s).subs s' = c.subs s' := by
  unfold stepRecv
  simp only []
  split
  · rfl
  · exact setAt_other _ _ h

theorem stepRecv_same (c : Cfg M) (s : Nat) : stepRecv c s = c ∨
    ∃ e rest, (c.subs s).pending = e :: rest ∧ ((stepRecv c s).subs s).evs = (c.subs s).evs ++ [e] ∧
      ((stepRecv c s).subs s).base = (c.subs s).base ∧ ((stepRecv c s).subs s).live = (c.subs s).live := by
  unfold stepRecv
  simp only []
  split
  · left; rfl
  · next e rest hp => right; exact ⟨e, rest, hp, by simp [setAt_same], by simp [setAt_same], by simp [setAt_same, Sub.live]⟩

theorem Rcv.init (s₀ : Nat → Option M) (progs : Nat → List (WOp M)) (opts : Nat → SubOpts M) :
    Rcv (initCfg s₀ progs opts) := by
  intro s hs; simp [initCfg, Sub.live] at hs

theorem Rcv.next {c : Cfg M} (hI : Inv true c) (h : Rcv c) (a : Act) : Rcv (step c a) := by
  cases a with
  | commit t =>
    intro s hs
    have e : step c (.commit t) = stepCommit c t := rfl
    rw [e, stepCommit_subs] at hs ⊢; exact h s hs
  | snap k =>
    intro s hs
    have e : step c (.snap k) = stepSnap c k := rfl
    rw [e, stepSnap_subs] at hs ⊢; exact h s hs
  | deliver k =>
    intro s hs
    obtain ⟨h1, h2, h3⟩ := stepDeliver_frame c k s
    have e : step c (.deliver k) = stepDeliver c k := rfl
    rw [e] at hs ⊢
    rw [h1, h2]
    rw [h3] at hs
    exact h s hs
  | sub s =>
    intro s' hs'
    have e : ScVerif.C03.step c (.sub s) = stepSub c s := rfl
    rw [e] at hs' ⊢
    by_cases hss : s' = s
    · subst hss
      rcases stepSub_same c s' with h1 | h1
      · rw [h1] at hs' ⊢; exact h s' hs'
      · rw [h1]; trivial
    · rw [stepSub_other c s s' hss] at hs' ⊢; exact h s' hs'
  | cancel s =>
    intro s' hs'
    have e : ScVerif.C03.step c (.cancel s) = stepCancel c s := rfl
    rw [e] at hs' ⊢
    by_cases hss : s' = s
    · subst hss
      rcases stepCancel_same c s' with h1 | h1
      · rw [h1] at hs' ⊢; exact h s' hs'
      · rw [h1] at hs'; cases hs'
    · rw [stepCancel_other c s s' hss] at hs' ⊢; exact h s' hs'
  | recv s =>
    intro s' hs'
    have e : ScVerif.C03.step c (.recv s) = stepRecv c s := rfl
    rw [e] at hs' ⊢
    by_cases hss : s' = s
    · subst hss
      rcases stepRecv_same c s' with h1 | ⟨e, rest, hp, h1, h2, h3⟩
      · rw [h1] at hs' ⊢; exact h s' hs'
      · rw [h3] at hs'
        rw [h1, h2, linkOK_append]
        refine ⟨h s' hs', ?_⟩
        have hl := hI.link rfl s' hs'
        rw [hp] at hl
        simp only [List.cons_append, linkOK] at hl
        simp only [linkOK, and_true]
        rcases hl.1 with h1 | h1
        · exact Or.inl h1
        · exact Or.inr ⟨trivial, h1.2⟩
    · rw [stepRecv_other c s s' hss] at hs' ⊢; exact h s' hs'

/-- the invariant together with `Rcv` along every ordered run -/
theorem Rcv.run {c : Cfg M} (hI : Inv true c) (h : Rcv c) (sched : List Act) (hord : ordered c sched = true) :
    Rcv (run c sched) := by
  induction sched generalizing c with
  | nil => exact h
  | cons a rest ih =>
    simp only [ordered, Bool.and_eq_true] at hord
    exact ih (hI.step a (fun _ => hord.1)) (h.next hI a) hord.2

end ScVerif.C03
