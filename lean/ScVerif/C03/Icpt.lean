import ScVerif.C03.Inv4
import ScVerif.C03.IcptDef
/-!
# C03 — id interceptors: a change only ever names an id some call stored under

`resource.WithIDInterceptor(f)`: `Update`, `Delete`, `Get`, `PullID` (and `NewCollection` for its initial records) all
begin with `id = c.idInterceptor(id)` and use the image for everything after: the look-up, the map write AND the
`CollectionChange.Id` of the publication.  `WOp.canon` is that first statement; a run of callers' programs is the run
of their canonical programs (`initI`).

`Ids P c`: every id named by a call still to be made, by a publication in flight, by a staged (merged) change or by a
received change satisfies `P`.  It holds initially when the programs' ids do, and every step keeps it (the merge stage
keeps the id of the change it merges) — on EVERY schedule.  With `P := (∃ r, · = icpt r)`: no subscriber is ever told
about an id that is not the interceptor's image of some caller's spelling, so a view folded by `Id` has no entry under
a caller's own spelling.
-/
set_option linter.unusedSectionVars false
set_option linter.unusedVariables false
namespace ScVerif.C03
open ScVerif.C02 (setAt setAt_same setAt_other)

variable {M : Type} [DecidableEq M]

structure Ids (P : Nat → Prop) (c : Cfg M) : Prop where
  progs : ∀ t o, o ∈ (c.writers t).prog → P o.id
  pubs : ∀ p, p ∈ c.pubs → P p.ev.id
  pending : ∀ s e, e ∈ (c.subs s).pending → P e.id
  evs : ∀ s e, e ∈ (c.subs s).evs → P e.id

theorem mergeInto_ids {P : Nat → Prop} (L : List (Event M)) (e : Event M) (hL : ∀ a, a ∈ L → P a.id) (he : P e.id) :
    ∀ x, x ∈ mergeInto L e → P x.id := by
  induction L with
  | nil => intro x hx; simp only [mergeInto, List.mem_singleton] at hx; rw [hx]; exact he
  | cons a L ih =>
    intro x hx
    simp only [mergeInto] at hx
    split at hx
    · split at hx
      · exact hL x (List.mem_cons_of_mem _ hx)
      · rcases List.mem_append.mp hx with h1 | h1
        · exact hL x (List.mem_cons_of_mem _ h1)
        · simp only [List.mem_singleton] at h1
          rw [h1]
          exact he
    · rcases List.mem_cons.mp hx with h1 | h1
      · rw [h1]; exact hL a List.mem_cons_self
      · exact ih (fun a' ha' => hL a' (List.mem_cons_of_mem _ ha')) x h1

theorem stepCommit_progs (c : Cfg M) (t t' : Nat) (o : WOp M) :
    o ∈ ((stepCommit c t).writers t').prog → o ∈ (c.writers t').prog := by
  intro h
  unfold stepCommit at h
  simp only [Cfg.popOp] at h
  by_cases htt : t' = t
  · subst htt
    repeat' split at h
    all_goals first
      | exact h
      | (simp only [setAt_same] at h
         simp_all)
  · repeat' split at h
    all_goals first
      | exact h
      | (simp only [setAt_other _ _ htt] at h
         exact h)

theorem finishPub_progs (c : Cfg M) (p : Pub M) (pubs' : List (Pub M)) (t' : Nat) :
    ((c.finishPub p pubs').writers t').prog = (c.writers t').prog := by
  simp only [Cfg.finishPub, setAt]
  split
  · next h => rw [h]
  · rfl

theorem stepSnap_progs (c : Cfg M) (k t' : Nat) : ((stepSnap c k).writers t').prog = (c.writers t').prog := by
  unfold stepSnap
  repeat' split
  all_goals first
    | rfl
    | exact finishPub_progs _ _ _ _

theorem stepDeliver_progs (c : Cfg M) (k t' : Nat) : ((stepDeliver c k).writers t').prog = (c.writers t').prog := by
  unfold stepDeliver
  simp only []
  repeat' split
  all_goals first
    | rfl
    | exact finishPub_progs _ _ _ _

theorem step_progs (c : Cfg M) (a : Act) (t' : Nat) (o : WOp M) :
    o ∈ ((ScVerif.C03.step c a).writers t').prog → o ∈ (c.writers t').prog := by
  intro h
  cases a with
  | commit t => exact stepCommit_progs c t t' o h
  | snap k =>
    have e : ScVerif.C03.step c (.snap k) = stepSnap c k := rfl
    rw [e, stepSnap_progs] at h; exact h
  | deliver k =>
    have e : ScVerif.C03.step c (.deliver k) = stepDeliver c k := rfl
    rw [e, stepDeliver_progs] at h; exact h
  | sub s =>
    have e : ScVerif.C03.step c (.sub s) = stepSub c s := rfl
    rw [e] at h
    unfold stepSub at h
    simp only [] at h
    split at h <;> exact h
  | cancel s =>
    have e : ScVerif.C03.step c (.cancel s) = stepCancel c s := rfl
    rw [e] at h
    unfold stepCancel at h
    simp only [] at h
    split at h <;> exact h
  | recv s =>
    have e : ScVerif.C03.step c (.recv s) = stepRecv c s := rfl
    rw [e] at h
    unfold stepRecv at h
    simp only [] at h
    split at h <;> exact h

/-- a commit announces the id its call names -/
theorem stepCommit_pubs_id (c : Cfg M) (t : Nat) :
    ∀ p, p ∈ (stepCommit c t).pubs → p ∈ c.pubs ∨ ∃ o, o ∈ (c.writers t).prog ∧ p.ev.id = o.id := by
  intro p hp
  unfold stepCommit at hp
  simp only [Cfg.popOp] at hp
  split at hp
  · exact Or.inl hp
  · split at hp
    · exact Or.inl hp
    · next i f rest hprog =>
      split at hp
      · exact Or.inl hp
      · rcases List.mem_append.mp hp with h1 | h1
        · exact Or.inl h1
        · simp only [List.mem_singleton] at h1
          right
          exact ⟨.upd i f, by rw [hprog]; exact List.mem_cons_self, by rw [h1]; rfl⟩
    · next i pr rest hprog =>
      repeat' split at hp
      all_goals first
        | exact Or.inl hp
        | (rcases List.mem_append.mp hp with h1 | h1
           · exact Or.inl h1
           · simp only [List.mem_singleton] at h1
             right
             exact ⟨.del i pr, by rw [hprog]; exact List.mem_cons_self, by rw [h1]; rfl⟩)

theorem Ids.init {P : Nat → Prop} (s₀ : Nat → Option M) (progs : Nat → List (WOp M)) (opts : Nat → SubOpts M)
    (h : ∀ t o, o ∈ progs t → P o.id) : Ids P (initCfg s₀ progs opts) := by
  refine ⟨?_, ?_, ?_, ?_⟩
  · intro t o ho; exact h t o ho
  all_goals intros; simp_all [initCfg]

theorem Ids.next {P : Nat → Prop} {c : Cfg M} (h : Ids P c) (a : Act) : Ids P (ScVerif.C03.step c a) := by
  have hpr : ∀ t o, o ∈ ((ScVerif.C03.step c a).writers t).prog → P o.id :=
    fun t o ho => h.progs t o (step_progs c a t o ho)
  cases a with
  | commit t =>
    have e : ScVerif.C03.step c (.commit t) = stepCommit c t := rfl
    rw [e]
    refine ⟨hpr, ?_, ?_, ?_⟩
    · intro p hp
      rcases stepCommit_pubs_id c t p hp with h1 | ⟨o, ho, h1⟩
      · exact h.pubs p h1
      · rw [h1]; exact h.progs t o ho
    · intro s x hx; rw [stepCommit_subs] at hx; exact h.pending s x hx
    · intro s x hx; rw [stepCommit_subs] at hx; exact h.evs s x hx
  | snap k =>
    have e : ScVerif.C03.step c (.snap k) = stepSnap c k := rfl
    rw [e]
    refine ⟨hpr, ?_, ?_, ?_⟩
    · intro q hq
      obtain ⟨p, hp, hqp⟩ := stepSnap_pubs c k q hq
      rw [hqp]; exact h.pubs p hp
    · intro s x hx; rw [stepSnap_subs] at hx; exact h.pending s x hx
    · intro s x hx; rw [stepSnap_subs] at hx; exact h.evs s x hx
  | deliver k =>
    have e : ScVerif.C03.step c (.deliver k) = stepDeliver c k := rfl
    rw [e]
    refine ⟨hpr, ?_, ?_, ?_⟩
    · intro q hq
      obtain ⟨p, hp, hqp⟩ := stepDeliver_pubs c k q hq
      rw [hqp]; exact h.pubs p hp
    · intro s x hx
      rcases (stepDeliver_stage c k s).2 with h1 | ⟨p, hp, h1 | h1⟩
      · rw [h1] at hx; exact h.pending s x hx
      · rw [h1] at hx; exact mergeInto_ids _ _ (h.pending s) (h.pubs p hp) x hx
      · rw [h1] at hx; simp only [List.mem_singleton] at hx; rw [hx]; exact h.pubs p hp
    · intro s x hx; rw [(stepDeliver_stage c k s).1] at hx; exact h.evs s x hx
  | sub s =>
    have e : ScVerif.C03.step c (.sub s) = stepSub c s := rfl
    rw [e]
    have hsame : stepSub c s = c ∨ (((stepSub c s).subs s).evs = [] ∧ ((stepSub c s).subs s).pending = [] ∧
        (stepSub c s).pubs = c.pubs) := by
      unfold stepSub
      simp only []
      split
      · left; rfl
      · right; simp [setAt_same]
    have hpubs : (stepSub c s).pubs = c.pubs := by
      unfold stepSub
      simp only []
      split <;> rfl
    refine ⟨hpr, ?_, ?_, ?_⟩
    · intro p hp; rw [hpubs] at hp; exact h.pubs p hp
    · intro s' x hx
      by_cases hss : s' = s
      · subst hss
        rcases hsame with h1 | h1
        · rw [h1] at hx; exact h.pending s' x hx
        · rw [h1.2.1] at hx; cases hx
      · rw [stepSub_other c s s' hss] at hx; exact h.pending s' x hx
    · intro s' x hx
      by_cases hss : s' = s
      · subst hss
        rcases hsame with h1 | h1
        · rw [h1] at hx; exact h.evs s' x hx
        · rw [h1.1] at hx; cases hx
      · rw [stepSub_other c s s' hss] at hx; exact h.evs s' x hx
  | cancel s =>
    have e : ScVerif.C03.step c (.cancel s) = stepCancel c s := rfl
    rw [e]
    have hsame : (stepCancel c s).pubs = c.pubs ∧ ((stepCancel c s).subs s).evs = (c.subs s).evs ∧
        ((stepCancel c s).subs s).pending = (c.subs s).pending := by
      unfold stepCancel
      simp only []
      split
      · simp [setAt_same]
      · exact ⟨rfl, rfl, rfl⟩
    refine ⟨hpr, ?_, ?_, ?_⟩
    · intro p hp; rw [hsame.1] at hp; exact h.pubs p hp
    · intro s' x hx
      by_cases hss : s' = s
      · subst hss; rw [hsame.2.2] at hx; exact h.pending s' x hx
      · rw [stepCancel_other c s s' hss] at hx; exact h.pending s' x hx
    · intro s' x hx
      by_cases hss : s' = s
      · subst hss; rw [hsame.2.1] at hx; exact h.evs s' x hx
      · rw [stepCancel_other c s s' hss] at hx; exact h.evs s' x hx
  | recv s =>
    have e : ScVerif.C03.step c (.recv s) = stepRecv c s := rfl
    rw [e]
    have hsame : stepRecv c s = c ∨ ∃ e rest, (c.subs s).pending = e :: rest ∧
        ((stepRecv c s).subs s).evs = (c.subs s).evs ++ [e] ∧ ((stepRecv c s).subs s).pending = rest ∧
        (stepRecv c s).pubs = c.pubs := by
      unfold stepRecv
      simp only []
      split
      · left; rfl
      · next e rest hp => right; exact ⟨e, rest, hp, by simp [setAt_same], by simp [setAt_same], rfl⟩
    have hpubs : (stepRecv c s).pubs = c.pubs := by
      rcases hsame with h1 | ⟨_, _, _, _, _, h1⟩
      · rw [h1]
      · exact h1
    refine ⟨hpr, ?_, ?_, ?_⟩
    · intro p hp; rw [hpubs] at hp; exact h.pubs p hp
    · intro s' x hx
      by_cases hss : s' = s
      · subst hss
        rcases hsame with h1 | ⟨e, rest, hp, _, h2, _⟩
        · rw [h1] at hx; exact h.pending s' x hx
        · rw [h2] at hx; exact h.pending s' x (by rw [hp]; exact List.mem_cons_of_mem _ hx)
      · rw [stepRecv_other c s s' hss] at hx; exact h.pending s' x hx
    · intro s' x hx
      by_cases hss : s' = s
      · subst hss
        rcases hsame with h1 | ⟨e, rest, hp, h2, _, _⟩
        · rw [h1] at hx; exact h.evs s' x hx
        · rw [h2] at hx
          rcases List.mem_append.mp hx with h3 | h3
          · exact h.evs s' x h3
          · simp only [List.mem_singleton] at h3
            rw [h3]; exact h.pending s' e (by rw [hp]; exact List.mem_cons_self)
      · rw [stepRecv_other c s s' hss] at hx; exact h.evs s' x hx


theorem Ids.runAll {P : Nat → Prop} {c : Cfg M} (h : Ids P c) (sched : List Act) : Ids P (run c sched) := by
  induction sched generalizing c with
  | nil => exact h
  | cons a rest ih => exact ih (h.next a)

/-! ### the store changes only at ids named by calls -/

theorem stepCommit_store (c : Cfg M) (t i : Nat) :
    (stepCommit c t).store i = c.store i ∨ ∃ o, o ∈ (c.writers t).prog ∧ o.id = i := by
  by_cases hi : ∃ o, o ∈ (c.writers t).prog ∧ o.id = i
  · exact Or.inr hi
  · left
    unfold stepCommit
    simp only [Cfg.popOp]
    split
    · rfl
    · split
      · rfl
      · next j f rest hprog =>
        have hj : i ≠ j := fun h => hi ⟨.upd j f, by rw [hprog]; exact List.mem_cons_self, h.symm⟩
        split
        · rfl
        · simp only [applyEv]; exact setAt_other _ _ hj
      · next j pr rest hprog =>
        have hj : i ≠ j := fun h => hi ⟨.del j pr, by rw [hprog]; exact List.mem_cons_self, h.symm⟩
        repeat' split
        all_goals first
          | rfl
          | (simp only [applyEv]; exact setAt_other _ _ hj)

theorem step_store (c : Cfg M) (a : Act) (i : Nat) :
    (ScVerif.C03.step c a).store i = c.store i ∨ ∃ t o, o ∈ (c.writers t).prog ∧ o.id = i := by
  cases a with
  | commit t =>
    rcases stepCommit_store c t i with h | ⟨o, ho, h⟩
    · exact Or.inl h
    · exact Or.inr ⟨t, o, ho, h⟩
  | snap k =>
    left
    show (stepSnap c k).store i = c.store i
    unfold stepSnap
    simp only [Cfg.finishPub]
    repeat' split
    all_goals rfl
  | deliver k =>
    left
    show (stepDeliver c k).store i = c.store i
    unfold stepDeliver
    simp only [Cfg.finishPub]
    repeat' split
    all_goals rfl
  | sub s =>
    left
    show (stepSub c s).store i = c.store i
    unfold stepSub
    simp only []
    split <;> rfl
  | cancel s =>
    left
    show (stepCancel c s).store i = c.store i
    unfold stepCancel
    simp only []
    split <;> rfl
  | recv s =>
    left
    show (stepRecv c s).store i = c.store i
    unfold stepRecv
    simp only []
    split <;> rfl

/-- an id no call names keeps its stored value, whatever the schedule -/
theorem run_store_frame {P : Nat → Prop} (sched : List Act) : ∀ {c : Cfg M}, Ids P c → ∀ i, ¬ P i →
    (run c sched).store i = c.store i := by
  induction sched with
  | nil => intro c _ i _; rfl
  | cons a rest ih =>
    intro c h i hi
    have h1 : (ScVerif.C03.step c a).store i = c.store i := by
      rcases step_store c a i with h1 | ⟨t, o, ho, h1⟩
      · exact h1
      · exact absurd (h1 ▸ h.progs t o ho) hi
    show (run (ScVerif.C03.step c a) rest).store i = c.store i
    rw [ih (h.next a) i hi, h1]

/-- a fold of changes none of which names `i` leaves `i` as it was -/
theorem foldl_applyEv_other (L : List (Event M)) (v : Nat → Option M) (i : Nat) (h : ∀ e, e ∈ L → e.id ≠ i) :
    (L.foldl applyEv v) i = v i := by
  induction L generalizing v with
  | nil => rfl
  | cons e L ih =>
    simp only [List.foldl_cons]
    rw [ih (applyEv v e) (fun a ha => h a (List.mem_cons_of_mem _ ha))]
    simp only [applyEv]
    exact setAt_other _ _ (fun heq => h e List.mem_cons_self heq.symm)

/-- `i` is what the interceptor makes of the id named by some call of the programs -/
def named (icpt : Nat → Nat) (progs : Nat → List (WOp M)) (i : Nat) : Prop :=
  ∃ t o, o ∈ progs t ∧ i = icpt o.id

theorem named_init (icpt : Nat → Nat) (s₀ : Nat → Option M) (progs : Nat → List (WOp M)) (opts : Nat → SubOpts M) :
    Ids (named icpt progs) (initI icpt s₀ progs opts) := by
  apply Ids.init
  intro t o ho
  obtain ⟨o', ho', rfl⟩ := List.mem_map.mp ho
  exact ⟨t, o', ho', WOp.canon_id icpt o'⟩

end ScVerif.C03
