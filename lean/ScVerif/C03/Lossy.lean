import ScVerif.C02.Model
/-!
# C03 — the lossy stage of `Collection.Pull` while the consumer is paused

`mergeCollectionExcess` (pkg/resource/backpressure.go) keeps one pending change per id and a FIFO of ids;
`mergeChanges` combines the pending change of an id with the next one by their kinds and CANCELS an ADD
followed by a REMOVE.  Only what the folded view needs is kept: id, kind, new value.
-/
namespace ScVerif.C03.Lossy
open ScVerif.C02 (setAt)

inductive Kind
  | add | update | replace | remove
  deriving DecidableEq, Repr

structure Chg where
  id : Nat
  kind : Kind
  new : Option Int
  deriving DecidableEq, Repr

/-- the kind table of `mergeChanges a b`; `none` = both changes are dropped (`send = false`) -/
def mergeKind : Kind → Kind → Option Kind
  | .add, .remove => none
  | .add, _ => some .add
  | .update, .add => some .replace
  | .update, k => some k
  | .replace, .remove => some .remove
  | .replace, _ => some .replace
  | .remove, .remove => some .remove
  | .remove, _ => some .replace

/-- one receive of the merge goroutine while nothing is taken from its output -/
def recv (pending : List Chg) (c : Chg) : List Chg :=
  match pending.find? (fun a => a.id == c.id) with
  | none => pending ++ [c]
  | some a =>
    let rest := pending.filter (fun x => x.id != c.id)
    match mergeKind a.kind c.kind with
    | none => rest
    | some k => rest ++ [{ c with kind := k }]

def applyChg (v : Nat → Option Int) (c : Chg) : Nat → Option Int :=
  if c.kind = .remove then setAt v c.id none else setAt v c.id c.new

end ScVerif.C03.Lossy
