import ScVerif.C15.Store
/-!
C15 — the collection as RECORDS: the id an item is stored under (`byId`'s map key) AND the key field of the stored
message (`ElectricMode.id`, `Hail.id`, `Child.name`, `Publication.id`, `Consumable.name`, `Stock.consumable`).

`Collection.List` sorts the items by the id they are stored under, but the List RPCs never see that id: they
binary-search, and mint page tokens from, the key FIELD of the messages (`sortedItems[i].Id > lastKey`).  Paging is
only right when the two agree.  `Store.lean` tracks the ids alone; here every creation / update API of the six
models is followed down to the key field it stores:

* `Collection.Add(id, msg, WithGenIDIfAbsent(), WithIDCallback(msg.key = id))` — the callback writes a generated id
  into the message before it is stored; a given id is the message's own key field;
* parent `AddChild(child)` stores under `child.Name`; `AddChildTrait(name)` creates `{Name: name}`;
* `UpdateMode(mode, opts…)`, `UpdateHail(hail, opts…)`, `UpdateConsumable(c, opts…)`, `UpdateStock(s, opts…)`
  (`updateMsg`): the id IS the written message's key field; the empty id is refused; the caller's write options
  reach `Collection.Update`: `WithCreateIfAbsent()` and an update mask that may leave the key field out — a created
  item starts as an EMPTY message into which only the masked fields are merged.  Since 2b5cf2c (electric) and
  b40db78 (hail, vending ×2) the key field is appended to whatever mask the caller gave
  (`WithMoreUpdatePaths(key)`; a nil mask stays nil = every field);
* `UpdatePublication(id, msg, opts…)` (`updateId`): the id is a separate argument; since ac34320 a message whose
  `Id` differs from `id` (empty or foreign) is cloned and given `id`; since eb62186 the empty id is refused; since
  b40db78 the `Id` is always among the written fields;
* `Delete*(id, opts…)` removes the record; a missing one is `NotFound` unless `WithAllowMissing(true)` /
  `allow_missing` was given;
* initial records (`WithInitialMode`, `WithInitialChildren`, `WithInitialPublication`, `WithInitialConsumable`,
  `WithInitialStock`): the message is stored under its own key field; an empty key and a duplicate are refused
  (both panic at construction, by contract).

`stepWith false` is the code before b40db78 / eb62186 (the examples in `Props.lean` replay the defects on it).
-/
namespace ScVerif.C15

structure Rec where
  /-- the id the item is stored under -/
  id : String
  /-- the key field of the stored message -/
  key : String
  deriving DecidableEq

/-- `byId`, most recently created first. -/
abbrev RStore := List Rec

def RStore.ids (s : RStore) : List String := s.map (·.id)

theorem RStore.ids_cons (r : Rec) (s : RStore) : RStore.ids (r :: s) = r.id :: s.ids := rfl

/-- `byId[id].body`'s key field. -/
def RStore.keyOf (s : RStore) (id : String) : String :=
  match s.find? (fun r => r.id = id) with
  | some r => r.key
  | none => ""

/-- What the List RPC pages over: `Collection.List` (the items sorted by the id they are stored under), each item
seen through its key field. -/
def rlisting (s : RStore) : List String := (sortKeys s.ids).map s.keyOf

/-- The update mask of a write, as far as the key field is concerned. -/
inductive Mask where
  | none        -- no mask: every field is written
  | withKey     -- a mask that names the key field
  | withoutKey  -- a mask that leaves the key field out
  | empty       -- a mask that is not nil but has NO paths (`&fieldmaskpb.FieldMask{}`): on its own it writes nothing
  deriving DecidableEq

def Mask.writesKey : Mask → Bool
  | .withoutKey => false
  | .empty => false
  | _ => true

/-- `resource.WithMoreUpdatePaths(key)`: a nil mask stays nil (the guard is `request.UpdateMask == nil`), any other
mask - the one without paths included - now names the key. -/
def Mask.moreKey : Mask → Mask
  | .none => .none
  | _ => .withKey

inductive RecOp where
  | add (id : String) (cand : Nat → String)
  | ensure (name : String)
  /-- `Update*(msg, opts…)` where the id is the message's key field -/
  | updateMsg (key : String) (upsert : Bool) (mask : Mask)
  /-- `UpdatePublication(id, msg, opts…)`: `msgKey` is the `Id` the written message carries -/
  | updateId (id : String) (msgKey : String) (upsert : Bool) (mask : Mask)
  | delete (id : String) (allowMissing : Bool)
  /-- a `WithInitial…(msg)` option of `NewModel`: `key` is the message's key field -/
  | initial (key : String)

/-- `Collection.Update(id, msg, opts…)` for a message whose key field is `wkey`: an existing item has the masked
fields merged in; an absent one is created (with create-if-absent) from an EMPTY message plus the masked fields. -/
def RStore.write (s : RStore) (id wkey : String) (upsert writesKey : Bool) : RStore × StoreRes :=
  if id ∈ s.ids then
    ((if writesKey then s.map (fun r => if r.id = id then { r with key := wkey } else r) else s), .ok id)
  else if upsert then ({ id := id, key := if writesKey then wkey else "" } :: s, .ok id)
  else (s, .notFound)

def RStore.stepWith (fixed : Bool) (s : RStore) : RecOp → RStore × StoreRes
  | .add id cand =>
    match (if id = "" then genId cand (fun c => decide (c ∈ s.ids)) 10 0 else some id) with
    | none => (s, .aborted)
    | some id' => if id' ∈ s.ids then (s, .alreadyExists) else ({ id := id', key := id' } :: s, .ok id')
  | .ensure name =>
    if name = "" then (s, .rejected)
    else if name ∈ s.ids then (s, .ok name) else ({ id := name, key := name } :: s, .ok name)
  | .updateMsg k upsert mask =>
    if k = "" then (s, .rejected)
    else s.write k k upsert (if fixed then mask.moreKey else mask).writesKey
  | .updateId id msgKey upsert mask =>
    if fixed && id = "" then (s, .rejected)
    else s.write id (if msgKey ≠ id then id else msgKey) upsert (if fixed then mask.moreKey else mask).writesKey
  | .delete id allowMissing =>
    if id ∈ s.ids then (s.filter (fun r => r.id != id), .ok id)
    else if allowMissing then (s, .ok id) else (s, .notFound)
  | .initial key =>
    if key = "" then (s, .rejected)
    else if key ∈ s.ids then (s, .alreadyExists) else ({ id := key, key := key } :: s, .ok key)

/-- The code as it is now. -/
def RStore.step (s : RStore) (op : RecOp) : RStore × StoreRes := s.stepWith true op

def RStore.runWith (fixed : Bool) (s : RStore) : List RecOp → RStore
  | [] => s
  | op :: ops => RStore.runWith fixed (s.stepWith fixed op).1 ops

def RStore.run (s : RStore) (ops : List RecOp) : RStore := s.runWith true ops

/-- The ids' view of an operation: a create-if-absent update is an `ensure`. -/
def RecOp.proj : RecOp → StoreOp
  | .add id cand => .add id cand
  | .ensure name => .ensure name
  | .updateMsg k upsert _ => if upsert then .ensure k else .update k
  | .updateId id _ upsert _ => if upsert then .ensure id else .update id
  | .delete id _ => .delete id
  | .initial key => .ensure key

/-- Invariant: the ids are those of a map without an empty id (`Store.Inv`), and every stored message carries the
id it is stored under in its key field. -/
def RStore.Inv (s : RStore) : Prop := Store.Inv s.ids ∧ ∀ r ∈ s, r.key = r.id

theorem RStore.inv_nil : RStore.Inv [] := ⟨Store.inv_nil, by simp⟩

theorem Mask.moreKey_writesKey (m : Mask) : m.moreKey.writesKey = true := by cases m <;> rfl

theorem ids_map_key (s : RStore) (id wkey : String) :
    RStore.ids (s.map (fun r => if r.id = id then { r with key := wkey } else r)) = s.ids := by
  unfold RStore.ids
  rw [List.map_map]
  apply List.map_congr_left
  intro r _
  by_cases h : r.id = id <;> simp [h]

/-- A write of the item's own id into the key field keeps the invariant and touches the ids as `ensure` / `update` do. -/
theorem write_self (s : RStore) (id : String) (upsert : Bool) (h : s.Inv) (hid : id ≠ "") :
    (s.write id id upsert true).1.Inv ∧
    (s.write id id upsert true).1.ids = (Store.step s.ids (if upsert then .ensure id else .update id)).1 := by
  obtain ⟨⟨hnd, hne⟩, hk⟩ := h
  unfold RStore.write
  by_cases hm : id ∈ s.ids
  · simp only [hm, if_true]
    refine ⟨⟨by rw [ids_map_key]; exact ⟨hnd, hne⟩, ?_⟩, ?_⟩
    · intro r hr
      obtain ⟨r', hr', rfl⟩ := List.mem_map.mp hr
      by_cases e : r'.id = id
      · simp [e]
      · simp [e, hk r' hr']
    · rw [ids_map_key]
      cases upsert <;> simp [Store.step, hm, hid]
  · simp only [hm, if_false]
    cases upsert with
    | false => exact ⟨⟨⟨hnd, hne⟩, hk⟩, by simp [Store.step, hm]⟩
    | true =>
      simp only [if_true]
      refine ⟨⟨⟨?_, ?_⟩, ?_⟩, ?_⟩
      · rw [RStore.ids_cons]; exact List.nodup_cons.mpr ⟨hm, hnd⟩
      · rw [RStore.ids_cons]
        intro hmem
        rcases List.mem_cons.mp hmem with e | hmem
        · exact hid e.symm
        · exact hne hmem
      · intro r hr
        rcases List.mem_cons.mp hr with e | hr
        · subst e; rfl
        · exact hk r hr
      · simp [Store.step, hm, hid, RStore.ids_cons]

theorem filter_ids_erase : ∀ (s : RStore) (id : String), s.ids.Nodup →
    RStore.ids (s.filter (fun r => r.id != id)) = s.ids.erase id := by
  intro s id
  induction s with
  | nil => intro _; rfl
  | cons r rs ih =>
    intro hnd
    rw [RStore.ids_cons] at hnd
    have hnd' := List.nodup_cons.mp hnd
    by_cases e : r.id = id
    · have hnot : id ∉ RStore.ids rs := e ▸ hnd'.1
      have hall : rs.filter (fun r => r.id != id) = rs := by
        apply List.filter_eq_self.mpr
        intro x hx
        have : x.id ≠ id := fun ex => hnot (ex ▸ List.mem_map_of_mem hx)
        exact bne_iff_ne.mpr this
      have hb : (r.id != id) = false := by simp [e]
      rw [List.filter_cons, hb, RStore.ids_cons, e, List.erase_cons_head]
      simp only [Bool.false_eq_true, if_false]
      rw [hall]
    · have hb : (r.id != id) = true := bne_iff_ne.mpr e
      rw [List.filter_cons, hb, RStore.ids_cons]
      simp only [if_true]
      rw [RStore.ids_cons, ih hnd'.2, List.erase_cons_tail (by simpa using e)]

theorem RStore.step_inv (s : RStore) (op : RecOp) (h : s.Inv) :
    (s.step op).1.Inv ∧ (s.step op).1.ids = (Store.step s.ids op.proj).1 := by
  have h' := h
  obtain ⟨⟨hnd, hne⟩, hk⟩ := h
  cases op with
  | add id cand =>
    simp only [RStore.step, RStore.stepWith, RecOp.proj, Store.step]
    cases hid : (if id = "" then genId cand (fun c => decide (c ∈ s.ids)) 10 0 else some id) with
    | none => exact ⟨h', rfl⟩
    | some id' =>
      simp only []
      by_cases hm : id' ∈ s.ids
      · simp only [hm, if_true]; exact ⟨h', trivial⟩
      · simp only [hm, if_false]
        have hid' : id' ≠ "" := by
          by_cases he : id = ""
          · simp only [he, if_true] at hid
            exact (genId_spec _ _ _ _ _ hid).1
          · simp only [he, if_false, Option.some.injEq] at hid
            exact hid ▸ he
        refine ⟨⟨⟨?_, ?_⟩, ?_⟩, RStore.ids_cons _ _⟩
        · rw [RStore.ids_cons]; exact List.nodup_cons.mpr ⟨hm, hnd⟩
        · rw [RStore.ids_cons]
          intro hmem
          rcases List.mem_cons.mp hmem with e | hmem
          · exact hid' e.symm
          · exact hne hmem
        · intro r hr
          rcases List.mem_cons.mp hr with e | hr
          · subst e; rfl
          · exact hk r hr
  | ensure name =>
    simp only [RStore.step, RStore.stepWith, RecOp.proj, Store.step]
    by_cases hn : name = ""
    · simp only [hn, if_true]; exact ⟨h', trivial⟩
    · simp only [hn, if_false]
      by_cases hm : name ∈ s.ids
      · simp only [hm, if_true]; exact ⟨h', trivial⟩
      · simp only [hm, if_false]
        refine ⟨⟨⟨by rw [RStore.ids_cons]; exact List.nodup_cons.mpr ⟨hm, hnd⟩, ?_⟩, ?_⟩, RStore.ids_cons _ _⟩
        · rw [RStore.ids_cons]
          intro hmem
          rcases List.mem_cons.mp hmem with e | hmem
          · exact hn e.symm
          · exact hne hmem
        · intro r hr
          rcases List.mem_cons.mp hr with e | hr
          · subst e; rfl
          · exact hk r hr
  | updateMsg k upsert mask =>
    simp only [RStore.step, RStore.stepWith, RecOp.proj, if_true, Mask.moreKey_writesKey]
    by_cases hk0 : k = ""
    · subst hk0
      simp only [if_true]
      refine ⟨h', ?_⟩
      cases upsert <;> simp [Store.step, hne]
    · simp only [hk0, if_false]
      exact write_self s k upsert h' hk0
  | updateId id msgKey upsert mask =>
    simp only [RStore.step, RStore.stepWith, RecOp.proj, if_true, Mask.moreKey_writesKey, Bool.true_and,
      decide_eq_true_eq]
    by_cases hk0 : id = ""
    · subst hk0
      simp only [if_true]
      refine ⟨h', ?_⟩
      cases upsert <;> simp [Store.step, hne]
    · simp only [hk0, if_false]
      have hw : (if msgKey ≠ id then id else msgKey) = id := by
        by_cases e : msgKey = id <;> simp [e]
      rw [hw]
      exact write_self s id upsert h' hk0
  | delete id allowMissing =>
    simp only [RStore.step, RStore.stepWith, RecOp.proj, Store.step]
    by_cases hm : id ∈ s.ids
    · simp only [hm, if_true]
      have hids := filter_ids_erase s id hnd
      refine ⟨⟨?_, ?_⟩, hids⟩
      · rw [hids]
        exact ⟨hnd.erase _, fun hmem => hne (List.mem_of_mem_erase hmem)⟩
      · intro r hr
        exact hk r (List.mem_filter.mp hr).1
    · simp only [hm, if_false]
      cases allowMissing <;> exact ⟨h', rfl⟩
  | initial key =>
    simp only [RStore.step, RStore.stepWith, RecOp.proj, Store.step]
    by_cases hn : key = ""
    · simp only [hn, if_true]; exact ⟨h', trivial⟩
    · simp only [hn, if_false]
      by_cases hm : key ∈ s.ids
      · simp only [hm, if_true]; exact ⟨h', trivial⟩
      · simp only [hm, if_false]
        refine ⟨⟨⟨by rw [RStore.ids_cons]; exact List.nodup_cons.mpr ⟨hm, hnd⟩, ?_⟩, ?_⟩, RStore.ids_cons _ _⟩
        · rw [RStore.ids_cons]
          intro hmem
          rcases List.mem_cons.mp hmem with e | hmem
          · exact hn e.symm
          · exact hne hmem
        · intro r hr
          rcases List.mem_cons.mp hr with e | hr
          · subst e; rfl
          · exact hk r hr

theorem RStore.run_inv : ∀ (ops : List RecOp) (s : RStore), s.Inv →
    (s.run ops).Inv ∧ (s.run ops).ids = Store.run s.ids (ops.map RecOp.proj) := by
  intro ops
  induction ops with
  | nil => intro s h; exact ⟨h, rfl⟩
  | cons op ops ih =>
    intro s h
    obtain ⟨h1, h2⟩ := s.step_inv op h
    have := ih _ h1
    simp only [RStore.run, RStore.runWith, List.map_cons, Store.run] at this ⊢
    rw [← h2]
    exact this

/-- `byId[id]`'s key field is `id` for every id of a store that satisfies the invariant. -/
theorem keyOf_self {s : RStore} (h : ∀ r ∈ s, r.key = r.id) {id : String} (hm : id ∈ s.ids) : s.keyOf id = id := by
  unfold RStore.keyOf
  obtain ⟨r, hr, hrid⟩ := List.mem_map.mp hm
  cases hf : s.find? (fun r => r.id = id) with
  | none =>
    have := List.find?_eq_none.mp hf r hr
    simp [hrid] at this
  | some r' =>
    have hmem := List.mem_of_find?_eq_some hf
    have hp := List.find?_some hf
    simp only [decide_eq_true_eq] at hp
    simp [h r' hmem, hp]

/-- Under the invariant the List RPC pages over exactly the sorted ids. -/
theorem rlisting_eq {s : RStore} (h : s.Inv) : rlisting s = listing s.ids := by
  unfold rlisting listing
  have : ∀ x ∈ sortKeys s.ids, s.keyOf x = x := fun x hx => keyOf_self h.2 (mem_sortKeys.mp hx)
  calc (sortKeys s.ids).map s.keyOf = (sortKeys s.ids).map id := List.map_congr_left this
    _ = sortKeys s.ids := by simp

end ScVerif.C15
