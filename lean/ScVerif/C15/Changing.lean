import ScVerif.C15.Chain
/-! Contents that CHANGE between pages (beyond the property's "held fixed"): page `i` of a chain is served from
the listing `ks i`.  Helper lemma for `C15_changing_contents`. -/
namespace ScVerif.C15

/-- Following next_page_token while the collection changes: page number `i` is computed on `ks i`. -/
def chainVar (v : Variant) (ks : Nat → List String) (size : Nat → Int) : Nat → Nat → Tok → Option (List Page)
  | 0, _, _ => none
  | fuel + 1, i, tok =>
    match listPage v (ks i) tok (size i) with
    | .ok p =>
      match p.next with
      | none => some [p]
      | some k => (chainVar v ks size fuel (i + 1) (.key k)).map (p :: ·)
    | _ => none

theorem chainVar_ne_nil (v : Variant) (ks : Nat → List String) (size : Nat → Int) :
    ∀ fuel i tok pages, chainVar v ks size fuel i tok = some pages → 0 < pages.length := by
  intro fuel i tok pages h
  cases fuel with
  | zero => simp [chainVar] at h
  | succ fuel =>
    unfold chainVar at h
    split at h
    · split at h
      · cases h; simp
      · obtain ⟨a, -, rfl⟩ := Option.map_eq_some_iff.mp h
        simp
    · cases h

theorem chainVar_facts (v : Variant) (ks : Nat → List String) (hs : ∀ i, Sorted (ks i)) (hne : ∀ i, "" ∉ ks i)
    (size : Nat → Int) (hsz : ∀ i, 0 ≤ size i) :
    ∀ fuel i tok pages, tok ≠ .bad → chainVar v ks size fuel i tok = some pages →
      (∀ x ∈ (pages.map (·.items)).flatten, lastKeyOf tok < x) ∧
      Sorted ((pages.map (·.items)).flatten) ∧
      (∀ x, lastKeyOf tok < x → (∀ j, j < pages.length → x ∈ ks (i + j)) →
        x ∈ (pages.map (·.items)).flatten) := by
  intro fuel
  induction fuel with
  | zero => intro i tok pages _ h; simp [chainVar] at h
  | succ fuel ih =>
    intro i tok pages htok h
    obtain ⟨hc1, -, -, -⟩ := capPageSize_bounds (size i) (hsz i)
    unfold chainVar at h
    rw [listPage_ok v (ks i) tok (size i) htok (hsz i)] at h
    generalize hkdef : lastKeyOf tok = k at h ⊢
    have hr := nextIndex_le v (ks i) k
    have hA : (ks i).drop (nextIndex v (ks i) k) = (ks i).filter (fun x => decide (k < x)) := by
      rw [nextIndex_spec v (hs i) k, after_eq_filter (hne i)]
    generalize nextIndex v (ks i) k = r at h hr hA
    generalize hcdef : (capPageSize (size i)).toNat = c at h
    have hc : 1 ≤ c := by omega
    have hAs : Sorted ((ks i).drop r) := List.Pairwise.sublist (List.drop_sublist r _) (hs i)
    have hAmem : ∀ a, a ∈ (ks i).drop r ↔ (a ∈ ks i ∧ k < a) := by
      intro a; rw [hA, List.mem_filter]; simp
    have hAlen : ((ks i).drop r).length = (ks i).length - r := List.length_drop
    generalize hAdef : (ks i).drop r = A at h hAs hAmem hAlen
    by_cases hle : r + c ≤ (ks i).length
    · simp only [hle, if_true] at h
      obtain ⟨c', rfl⟩ : ∃ c', c = c' + 1 := ⟨c - 1, by omega⟩
      have ht : A[c']? = some (keyAt (ks i) (r + (c' + 1) - 1)) := by
        rw [← hAdef, List.getElem?_drop, getElem?_eq_keyAt (ks i) (r + c') (by omega)]
        congr 2
      generalize keyAt (ks i) (r + (c' + 1) - 1) = t at h ht
      have htake : A.take (c' + 1) = A.take c' ++ [t] := by
        rw [List.take_add_one, ht]; rfl
      have hsplit : A = (A.take c' ++ [t]) ++ A.drop (c' + 1) := by
        rw [← htake]; exact (List.take_append_drop _ _).symm
      have hAs' := hAs
      rw [hsplit] at hAs'
      obtain ⟨hs1, hs2, hcross⟩ := List.pairwise_append.mp hAs'
      obtain ⟨_, _, hinit⟩ := List.pairwise_append.mp hs1
      have htA : t ∈ A := by rw [hsplit]; simp
      have hkt : k < t := ((hAmem t).mp htA).2
      -- the rest of the chain
      cases hrest : chainVar v ks size fuel (i + 1) (.key t) with
      | none => simp [hrest] at h
      | some rest =>
        simp only [hrest, Option.map_some, Option.some.injEq] at h
        subst h
        obtain ⟨r1, r2, r3⟩ := ih (i + 1) (.key t) rest (by simp) hrest
        simp only [lastKeyOf] at r1 r3
        simp only [List.map_cons, List.flatten_cons, htake]
        have hle_t : ∀ a ∈ A.take c' ++ [t], a < t ∨ a = t := by
          intro a ha
          rcases List.mem_append.mp ha with ha | ha
          · exact Or.inl (hinit a ha t (by simp))
          · exact Or.inr (by simpa using ha)
        refine ⟨?_, ?_, ?_⟩
        · intro x hx
          rcases List.mem_append.mp hx with hx | hx
          · exact ((hAmem x).mp (by rw [hsplit]; exact List.mem_append_left _ hx)).2
          · exact Std.lt_trans hkt (r1 x hx)
        · refine List.pairwise_append.mpr ⟨hs1, r2, ?_⟩
          intro a ha b hb
          rcases hle_t a ha with h' | h'
          · exact Std.lt_trans h' (r1 b hb)
          · rw [h']; exact r1 b hb
        · intro x hkx hall
          have hxA : x ∈ A := (hAmem x).mpr ⟨by simpa using hall 0 (by simp), hkx⟩
          rw [hsplit] at hxA
          rcases List.mem_append.mp hxA with hx | hx
          · exact List.mem_append_left _ hx
          · refine List.mem_append_right _ (r3 x (hcross t (by simp) x hx) ?_)
            intro j hj
            have := hall (j + 1) (by simp only [List.length_cons]; omega)
            rwa [show i + (j + 1) = i + 1 + j by omega] at this
    · simp only [hle, if_false, Option.some.injEq] at h
      subst h
      have hfull : A.take c = A := List.take_of_length_le (by omega)
      simp only [List.map_cons, List.map_nil, List.flatten_cons, List.flatten_nil, List.append_nil, hfull]
      refine ⟨fun x hx => ((hAmem x).mp hx).2, hAs, ?_⟩
      intro x hkx hall
      exact (hAmem x).mpr ⟨by simpa using hall 0 (by simp), hkx⟩

end ScVerif.C15
