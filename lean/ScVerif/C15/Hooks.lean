import ScVerif.C15.Icpt
/-!
C15 — writes that carry a write INTERCEPTOR (`resource.InterceptBefore`).

The stored records carry more than their key field, and some write entry points of the models decide what is
written from what is stored: `vendingpb.Model.DispenseInstantly(consumable, quantity)` (the `Dispense` RPC) runs

```go
m.UpdateStock(&Consumable_Stock{Consumable: consumable}, resource.InterceptBefore(func(old, new proto.Message) {
    if err := updateStock(quantity, oldVal, newVal); err != nil {   // unit conversion failed, perhaps half-way
        maskedErr = err
        proto.Reset(newVal); proto.Merge(newVal, oldVal)            // the write becomes a copy of the stored value
        return
    }
    newVal.LastDispensed = quantity; newVal.Dispensing = false
}))
```

There is no update mask, so every field of the message the callback leaves behind is written - the key field too.
As far as paging is concerned the callback is a function `g stored written ↦ key field of the message after it ran`,
plus whether it recorded an error that the call returns in place of the written value:

* a dispense that succeeds leaves the key field alone: `g old new = new` (`HOp.hooked k keepNew`);
* a dispense that fails makes the message a copy of the stored one: `g old new = old`, error (`restoreOld`);
* an "undo" that resets the message and puts back the quantities only is `g old new = ""` (`dropKey`): the item is
  then listed under the empty key (example in `Props.lean`).

`HOp` adds such writes to the operations of `Records.lean` / `Icpt.lean`; `RStore.hstep` follows
`Collection.Update` under the collection's id interceptor `f`: the empty id is refused (`UpdateStock`: "consumable
not specified"), an absent item is `NotFound` before the callback ever runs (no create-if-absent), an existing item
has its key field replaced by what the callback left.
-/
namespace ScVerif.C15

/-- A write interceptor as paging sees it: (key field stored, key field written) ↦ (key field of the message after
the callback ran, whether the callback recorded an error the call reports). -/
abbrev Hook := String → String → String × Bool

/-- The callback leaves the key field of the written message alone (a dispense that succeeds). -/
def keepNew : Hook := fun _ new => (new, false)
/-- The callback turns the written message into a copy of the stored one and records an error (a dispense whose
unit conversion fails: `proto.Reset(newVal); proto.Merge(newVal, oldVal)`). -/
def restoreOld : Hook := fun old _ => (old, true)
/-- An undo that forgets the key field (`proto.Reset(newVal)` and then only the quantities are put back). -/
def dropKey : Hook := fun _ _ => ("", true)

/-- The callback never invents a key: the message it leaves carries the stored key field or the written one. -/
def Hook.Tame (g : Hook) : Prop := ∀ old new, (g old new).1 = old ∨ (g old new).1 = new

theorem keepNew_tame : keepNew.Tame := fun _ _ => Or.inr rfl
theorem restoreOld_tame : restoreOld.Tame := fun _ _ => Or.inl rfl

/-! ### The callback of `DispenseInstantly`

`updateStock(quantity, src, dst)` converts the dispensed amount into the unit `src.Used` is kept in, then into the
unit of `src.Remaining` (each only if present), with `unitpb.Convert32`: equal units convert, otherwise both units
must be in the table `siUnits` and of one category.  Units are `traits.Consumable.Unit` enum numbers:
0 unspecified, 1 no unit, 2 metre (length), 3 litre, 4 cubic metre, 5 cup (volume), 6 kilogram (weight). -/

/-- `siUnits[u].category`: 0 length, 1 volume, 2 weight; `none` = not in the table. -/
def unitCat (u : Nat) : Option Nat :=
  if u = 2 then some 0 else if u = 3 ∨ u = 4 ∨ u = 5 then some 1 else if u = 6 then some 2 else none

/-- `unitpb.Convert(v, from, to)` returns no error. -/
def convertOk (frm to : Nat) : Bool :=
  frm == to || (match unitCat frm, unitCat to with
    | some a, some b => a == b
    | _, _ => false)

/-- `updateStock` returns an error - at once (Used does not convert) or half-way (Used did, Remaining does not). -/
def dispenseFails (used remaining : Option Nat) (q : Nat) : Bool :=
  (match used with | some u => !convertOk q u | none => false) ||
  (match remaining with | some u => !convertOk q u | none => false)

/-- The callback `DispenseInstantly` hands to `UpdateStock`, for a stock whose Used / Remaining are kept in the given
units (`none`: not kept) and a quantity in unit `q`. -/
def dispenseHook (used remaining : Option Nat) (q : Nat) : Hook :=
  if dispenseFails used remaining q then restoreOld else keepNew

theorem dispenseHook_tame (used remaining : Option Nat) (q : Nat) : (dispenseHook used remaining q).Tame := by
  unfold dispenseHook
  split
  · exact restoreOld_tame
  · exact keepNew_tame

inductive HOp where
  /-- an operation of `Records.lean` -/
  | plain (op : RecOp)
  /-- `Update*(msg{key: k}, InterceptBefore(g))`, no update mask, no create-if-absent -/
  | hooked (k : String) (g : Hook)

/-- The outcome of a hooked write: the callback's error replaces the result of a write that went through. -/
inductive HRes where
  | res (r : StoreRes)
  /-- the write went through (whatever the callback left was stored) and the call returned the callback's error -/
  | failed
  deriving DecidableEq

def RStore.hstep (f : String → String) (s : RStore) : HOp → RStore × HRes
  | .plain op => let r := s.istep f op; (r.1, .res r.2)
  | .hooked k g =>
    if k = "" then (s, .res .rejected)
    else if f k ∈ s.ids then
      (s.map (fun r => if r.id = f k then { r with key := (g r.key k).1 } else r),
        if (g (s.keyOf (f k)) k).2 then .failed else .res (.ok (g (s.keyOf (f k)) k).1))
    else (s, .res .notFound)

def RStore.hrun (f : String → String) (s : RStore) : List HOp → RStore
  | [] => s
  | op :: ops => RStore.hrun f (s.hstep f op).1 ops

/-- Every interceptor in the history is tame. -/
def HOp.Tame : HOp → Prop
  | .plain _ => True
  | .hooked _ g => g.Tame

theorem ids_map_setkey (s : RStore) (p : Rec → Bool) (h : Rec → String) :
    RStore.ids (s.map (fun r => if p r then { r with key := h r } else r)) = s.ids := by
  unfold RStore.ids
  rw [List.map_map]
  apply List.map_congr_left
  intro r _
  by_cases e : p r <;> simp [e]

/-- A hooked write with a tame callback keeps the invariant: the item stays under its storage id, and its key field
is the stored one (which had the invariant) or the written one (`k`, not empty, stored under `f k`). -/
theorem RStore.hstep_iinv {f : String → String} (hf : GoodIcpt f) (s : RStore) (op : HOp) (ht : op.Tame)
    (h : s.IInv f) : (s.hstep f op).1.IInv f := by
  cases op with
  | plain op => exact s.istep_iinv hf op h
  | hooked k g =>
    simp only [RStore.hstep]
    by_cases hk : k = ""
    · simp only [hk, if_true]; exact h
    · simp only [hk, if_false]
      by_cases hm : f k ∈ s.ids
      · simp only [hm, if_true]
        refine ⟨?_, ?_⟩
        · have := ids_map_setkey s (fun r => decide (r.id = f k)) (fun r => (g r.key k).1)
          simp only [decide_eq_true_eq] at this
          rw [this]; exact h.1
        · intro r hr
          obtain ⟨r', hr', rfl⟩ := List.mem_map.mp hr
          by_cases e : r'.id = f k
          · simp only [e, if_true]
            rcases ht r'.key k with ho | hn
            · rw [ho]; exact ⟨by rw [← e]; exact (h.2 r' hr').1, (h.2 r' hr').2⟩
            · rw [hn]; exact ⟨rfl, hk⟩
          · simp only [e, if_false]; exact h.2 r' hr'
      · simp only [hm, if_false]; exact h

theorem RStore.hrun_iinv {f : String → String} (hf : GoodIcpt f) : ∀ (ops : List HOp) (s : RStore),
    (∀ op ∈ ops, op.Tame) → s.IInv f → (s.hrun f ops).IInv f := by
  intro ops
  induction ops with
  | nil => intro s _ h; exact h
  | cons op ops ih =>
    intro s ht h
    exact ih _ (fun o ho => ht o (List.mem_cons_of_mem _ ho))
      (s.hstep_iinv hf op (ht op List.mem_cons_self) h)

/-- A callback that makes the written message a copy of the stored one leaves the collection as it was. -/
theorem RStore.hstep_restore (f : String → String) (s : RStore) (k : String) (g : Hook)
    (hg : ∀ old new, (g old new).1 = old) : (s.hstep f (.hooked k g)).1 = s := by
  simp only [RStore.hstep]
  by_cases hk : k = ""
  · simp [hk]
  · simp only [hk, if_false]
    by_cases hm : f k ∈ s.ids
    · simp only [hm, if_true]
      conv => rhs; rw [← List.map_id s]
      apply List.map_congr_left
      intro r _
      by_cases e : r.id = f k
      · simp only [e, if_true, hg, id]
        cases r with
        | mk rid rkey => simp only at e; subst e; rfl
      · simp [e]
    · simp [hm]

/-- Without hooked writes the history is one of `Icpt.lean`. -/
theorem RStore.hrun_plain (f : String → String) : ∀ (ops : List RecOp) (s : RStore),
    s.hrun f (ops.map .plain) = s.irun f ops := by
  intro ops
  induction ops with
  | nil => intro s; rfl
  | cons op ops ih => intro s; simp only [List.map_cons, RStore.hrun, RStore.hstep, RStore.irun]; exact ih _

end ScVerif.C15
