import ScVerif.C15.Chain
import ScVerif.C15.WasteLemmas
/-! Page-size bound in the form used by the property theorems (helper lemmas). -/
namespace ScVerif.C15

/-- The size a request for `size` items is allowed to return: `min (size, or 50 if 0) 1000`. -/
def allowed (size : Int) : Int := min (if size = 0 then 50 else size) 1000

theorem PagesOk_get {n : Nat} {size : Nat → Int} (hsz : ∀ i, 0 ≤ size i) :
    ∀ (pages : List Page) (i : Nat), PagesOk n size i pages →
      ∀ j p, pages[j]? = some p → (p.items.length : Int) ≤ allowed (size (i + j)) ∧ p.total = n := by
  intro pages
  induction pages with
  | nil => intro i _ j p h; simp at h
  | cons q qs ih =>
    intro i hok j p h
    obtain ⟨h1, h2, h3⟩ := hok
    cases j with
    | zero =>
      simp only [List.getElem?_cons_zero, Option.some.injEq] at h
      subst h
      obtain ⟨c1, c2, c3, c4⟩ := capPageSize_bounds (size i) (hsz i)
      refine ⟨?_, h2⟩
      unfold allowed
      by_cases h0 : size i = 0
      · simp only [h0, if_true, Nat.add_zero] at *
        have := c4 trivial
        omega
      · have := c3 h0
        simp only [h0, if_false, Nat.add_zero]
        omega
    | succ j =>
      simp only [List.getElem?_cons_succ] at h
      have := ih (i + 1) h3 j p h
      rwa [show i + 1 + j = i + (j + 1) by omega] at this

theorem WPagesOk_get {n : Nat} {size : Nat → Int} (hsz : ∀ i, 0 ≤ size i) :
    ∀ (pages : List WPage) (i : Nat), WPagesOk n size i pages →
      ∀ j p, pages[j]? = some p → (p.items.length : Int) ≤ allowed (size (i + j)) ∧ p.total = n := by
  intro pages
  induction pages with
  | nil => intro i _ j p h; simp at h
  | cons q qs ih =>
    intro i hok j p h
    obtain ⟨h1, h2, h3⟩ := hok
    cases j with
    | zero =>
      simp only [List.getElem?_cons_zero, Option.some.injEq] at h
      subst h
      obtain ⟨c1, c2, c3, c4⟩ := wasteCount_bounds (size i) (hsz i)
      refine ⟨?_, h2⟩
      unfold allowed
      by_cases h0 : size i = 0
      · simp only [h0, if_true, Nat.add_zero] at *
        have := c4 trivial
        omega
      · have := c3 h0
        simp only [h0, if_false, Nat.add_zero]
        omega
    | succ j =>
      simp only [List.getElem?_cons_succ] at h
      have := ih (i + 1) h3 j p h
      rwa [show i + 1 + j = i + (j + 1) by omega] at this

end ScVerif.C15
