import ScVerif.C15.Lemmas
namespace ScVerif.C15

def lastKeyOf : Tok → String
  | .key k => k
  | _ => ""

theorem capPageSize_bounds (size : Int) (h : 0 ≤ size) :
    1 ≤ capPageSize size ∧ capPageSize size ≤ 1000 ∧ (size ≠ 0 → capPageSize size ≤ size) ∧
    (size = 0 → capPageSize size = 50) := by
  unfold capPageSize defaultPageSize maxPageSize
  split
  · omega
  · split <;> omega

theorem listPage_ok (v : Variant) (keys : List String) (tok : Tok) (size : Int)
    (htok : tok ≠ .bad) (hsize : 0 ≤ size) :
    listPage v keys tok size = .ok ⟨(keys.drop (nextIndex v keys (lastKeyOf tok))).take (capPageSize size).toNat,
      if nextIndex v keys (lastKeyOf tok) + (capPageSize size).toNat ≤ keys.length
        then some (keyAt keys (nextIndex v keys (lastKeyOf tok) + (capPageSize size).toNat - 1)) else none,
      keys.length⟩ := by
  obtain ⟨hc1, hc2, -, -⟩ := capPageSize_bounds size hsize
  have hr := nextIndex_le v keys (lastKeyOf tok)
  generalize hrdef : nextIndex v keys (lastKeyOf tok) = r at hr
  have hns : ¬ size < 0 := by omega
  have key : ∀ lk, lk = lastKeyOf tok → listPage v keys tok size =
      (if (nextIndex v keys lk : Int) + capPageSize size > keys.length then
        match slice keys (nextIndex v keys lk) keys.length with
        | .ok items => .ok ⟨items, none, keys.length⟩
        | .err c => .err c
        | .panic => .panic
      else
        match index keys ((nextIndex v keys lk : Int) + capPageSize size - 1) with
        | .ok k =>
          match slice keys (nextIndex v keys lk) ((nextIndex v keys lk : Int) + capPageSize size) with
          | .ok items => .ok ⟨items, some k, keys.length⟩
          | .err c => .err c
          | .panic => .panic
        | .err c => .err c
        | .panic => .panic) := by
    intro lk hlk
    cases tok with
    | bad => exact absurd rfl htok
    | empty => subst hlk; simp only [listPage, hns, if_false]; rfl
    | key k => subst hlk; simp only [listPage, hns, if_false]; rfl
  rw [key _ rfl, hrdef]
  generalize capPageSize size = c at hc1 hc2
  by_cases hub : (r : Int) + c > keys.length
  · have hle : ¬ r + c.toNat ≤ keys.length := by omega
    simp only [hub, if_true, hle, if_false]
    have hsl : slice keys (r : Int) (keys.length : Int) = .ok ((keys.drop r).take (keys.length - r)) := by
      unfold slice
      have : (0 : Int) ≤ r ∧ (r : Int) ≤ keys.length ∧ (keys.length : Int) ≤ keys.length := by omega
      simp [this]
    rw [hsl]
    simp only
    congr 2
    rw [List.take_of_length_le (by simp), List.take_of_length_le (by simp; omega)]
  · have hle : r + c.toNat ≤ keys.length := by omega
    simp only [hub, if_false, hle, if_true]
    have hidx : index keys ((r : Int) + c - 1) = .ok (keyAt keys (r + c.toNat - 1)) := by
      unfold index
      have h0 : (0 : Int) ≤ (r : Int) + c - 1 := by omega
      have h1 : ((r : Int) + c - 1).toNat = r + c.toNat - 1 := by omega
      simp only [h0, if_true, h1]
      rw [getElem?_eq_keyAt keys _ (by omega)]
    rw [hidx]
    simp only
    have hsl : slice keys (r : Int) ((r : Int) + c) = .ok ((keys.drop r).take c.toNat) := by
      unfold slice
      have : (0 : Int) ≤ r ∧ (r : Int) ≤ (r : Int) + c ∧ (r : Int) + c ≤ keys.length := by omega
      have h1 : ((r : Int) + c).toNat - r = c.toNat := by omega
      simp [this, h1]
    rw [hsl]

/-- Every page respects its requested size and reports the collection size. -/
def PagesOk (n : Nat) (size : Nat → Int) : Nat → List Page → Prop
  | _, [] => True
  | i, p :: ps => p.items.length ≤ (capPageSize (size i)).toNat ∧ p.total = n ∧ PagesOk n size (i + 1) ps

theorem chain_from (v : Variant) {keys : List String} (hs : Sorted keys) (hne : "" ∉ keys)
    (size : Nat → Int) (hsz : ∀ i, 0 ≤ size i) :
    ∀ fuel i tok, tok ≠ .bad → keys.length - nextIndex v keys (lastKeyOf tok) < fuel →
      ∃ pages, chain v keys size fuel i tok = some pages ∧
        (pages.map (·.items)).flatten = keys.drop (nextIndex v keys (lastKeyOf tok)) ∧
        pages.length ≤ keys.length - nextIndex v keys (lastKeyOf tok) + 1 ∧
        PagesOk keys.length size i pages := by
  intro fuel
  induction fuel with
  | zero => intro i tok _ h; omega
  | succ fuel ih =>
    intro i tok htok hfuel
    obtain ⟨hc1, hc2, -, -⟩ := capPageSize_bounds (size i) (hsz i)
    have hr := nextIndex_le v keys (lastKeyOf tok)
    unfold chain
    rw [listPage_ok v keys tok (size i) htok (hsz i)]
    generalize hrdef : nextIndex v keys (lastKeyOf tok) = r at hr hfuel
    generalize hsdef : (capPageSize (size i)).toNat = s
    have hs1 : 1 ≤ s := by omega
    by_cases hle : r + s ≤ keys.length
    · simp only [hle, if_true]
      have hm : r + s - 1 < keys.length := by omega
      have hni : nextIndex v keys (lastKeyOf (.key (keyAt keys (r + s - 1)))) = r + s := by
        have := nextIndex_keyAt v hs hne (r + s - 1) hm
        simp only [lastKeyOf]; omega
      obtain ⟨pages, hch, hfl, hlen, hok⟩ := ih (i + 1) (.key (keyAt keys (r + s - 1))) (by simp) (by omega)
      rw [hni] at hfl hlen
      refine ⟨_ :: pages, by rw [hch]; rfl, ?_, ?_, ?_⟩
      · simp only [List.map_cons, List.flatten_cons, hfl]
        rw [show r + s = r + s from rfl, ← List.drop_drop]
        exact List.take_append_drop s _
      · simp only [List.length_cons]; omega
      · refine ⟨?_, rfl, hok⟩
        simp only [List.length_take, List.length_drop, hsdef]; omega
    · simp only [hle, if_false]
      refine ⟨_, rfl, ?_, ?_, ?_⟩
      · simp only [List.map_cons, List.map_nil, List.flatten_cons, List.flatten_nil, List.append_nil]
        exact List.take_of_length_le (by simp only [List.length_drop]; omega)
      · simp
      · refine ⟨?_, rfl, trivial⟩
        simp only [List.length_take, List.length_drop, hsdef]; omega

theorem listPageMasked_eq (v : Variant) (keys : List String) (tok : Tok) (size : Int) (vis : Bool) :
    listPageMasked v keys tok size vis =
      match listPage v keys tok size with
      | .ok p => .ok (p.display vis)
      | .err c => .err c
      | .panic => .panic := by
  unfold listPageMasked Page.display
  cases listPage v keys tok size <;> rfl

theorem chainMasked_eq (v : Variant) (keys : List String) (size : Nat → Int) (vis : Bool) :
    ∀ fuel i tok, chainMasked v keys size vis fuel i tok =
      (chain v keys size fuel i tok).map (·.map (Page.display vis)) := by
  intro fuel
  induction fuel with
  | zero => intro i tok; rfl
  | succ fuel ih =>
    intro i tok
    unfold chainMasked chain
    rw [listPageMasked_eq]
    cases h : listPage v keys tok (size i) with
    | ok p =>
      simp only [Page.display]
      cases hn : p.next with
      | none => simp [Page.display, hn]
      | some k =>
        simp only [ih]
        cases chain v keys size fuel (i + 1) (Tok.key k) <;> simp [Page.display, hn]
    | err c => rfl
    | panic => rfl

end ScVerif.C15
