import ScVerif.Base.Line
import ScVerif.C15.Paging
/-! Driver handler for C15: the state is the current listing (set by a `keys` line).

```
keys <hex,hex,…|->                 → ok <n>
page <gt|ge> <size> <E|B|K<hex>>   → ok <hex,…|-> <N|T<hex>> <total> | err <Code> | panic
codec <gt|ge> <hex bytes>           → <first page> | <page after its token>   or   invalid (not UTF-8)
waste <n> <size> <E|B|I<int>>      → ok <i,…|-> <N|T<int>> <total>   | err <Code> | panic
```
Keys travel as the hex of their UTF-8 bytes. -/
namespace ScVerif.C15
open ScVerif.Line

def hexVal? (c : Char) : Option Nat :=
  if '0' ≤ c ∧ c ≤ '9' then some (c.toNat - '0'.toNat)
  else if 'a' ≤ c ∧ c ≤ 'f' then some (c.toNat - 'a'.toNat + 10)
  else none

def hexBytes? : List Char → Option (List UInt8)
  | [] => some []
  | [_] => none
  | a :: b :: rest => do
    let x ← hexVal? a
    let y ← hexVal? b
    let r ← hexBytes? rest
    pure (UInt8.ofNat (x * 16 + y) :: r)

def unhex? (s : String) : Option String := do
  let bs ← hexBytes? s.toList
  String.fromUTF8? (ByteArray.mk bs.toArray)

def hexDigit (n : Nat) : Char := if n < 10 then Char.ofNat (n + 48) else Char.ofNat (n + 87)

def hex (s : String) : String :=
  String.ofList (s.toUTF8.toList.flatMap fun b => [hexDigit (b.toNat / 16), hexDigit (b.toNat % 16)])

def parseKeys? (s : String) : Option (List String) :=
  if s = "-" then some [] else (s.splitOn ",").mapM unhex?

def showKeys (ks : List String) : String :=
  if ks.isEmpty then "-" else ",".intercalate (ks.map hex)

def parseTok? (s : String) : Option Tok :=
  if s = "E" then some .empty
  else if s = "B" then some .bad
  else if s.startsWith "K" then (unhex? (s.drop 1).toString).map .key
  else none

def parseWTok? (s : String) : Option WTok :=
  if s = "E" then some .empty
  else if s = "B" then some .bad
  else if s.startsWith "I" then (parseInt? (s.drop 1).toString).map .idx
  else none

def parseVariant? (s : String) : Option Variant :=
  if s = "gt" then some .gt else if s = "ge" then some .ge else none

def showPage : Out Page → String
  | .ok p => s!"ok {showKeys p.items} {match p.next with | none => "N" | some k => "T" ++ hex k} {p.total}"
  | .err c => "err " ++ c.name
  | .panic => "panic"

def showWPage : Out WPage → String
  | .ok p =>
    let items := if p.items.isEmpty then "-" else ",".intercalate (p.items.map toString)
    s!"ok {items} {match p.next with | none => "N" | some k => "T" ++ toString k} {p.total}"
  | .err c => "err " ++ c.name
  | .panic => "panic"

def step (keys : List String) (toks : List String) : Option (List String × String) :=
  match toks with
  | ["keys", ks] => do
    let l ← parseKeys? ks
    pure (l, s!"ok {l.length}")
  | ["page", v, size, tok] => do
    let v ← parseVariant? v
    let size ← parseInt? size
    let tok ← parseTok? tok
    pure (keys, showPage (listPage v keys tok size))
  | ["page", v, size, tok, vis] => do
    let v ← parseVariant? v
    let size ← parseInt? size
    let tok ← parseTok? tok
    let vis ← parseBool? vis
    pure (keys, showPage (listPageMasked v keys tok size vis))
  | ["codec", v, h] => do
    -- a one-item listing whose key is the given byte string: mint a token from it and use it
    let v ← parseVariant? v
    let bs ← hexBytes? h.toList
    match String.fromUTF8? (ByteArray.mk bs.toArray) with
    | none => pure (keys, "invalid")        -- not a string: a protobuf string field cannot carry it
    | some s =>
      pure (keys, showPage (listPage v [s] .empty 1) ++ " | " ++ showPage (listPage v [s] (.key s) 1))
  | ["waste", n, size, tok] => do
    let n ← parseNat? n
    let size ← parseInt? size
    let tok ← parseWTok? tok
    pure (keys, showWPage (listWaste n tok size))
  | _ => none

def handleS (keys : List String) (toks : List String) : List String × String :=
  match step keys toks with
  | some r => r
  | none => (keys, "!bad-op")

end ScVerif.C15
