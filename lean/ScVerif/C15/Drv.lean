import ScVerif.Base.Line
import ScVerif.C15.Paging
import ScVerif.C15.Store
import ScVerif.C15.Records
import ScVerif.C15.Icpt
import ScVerif.C15.Hooks
/-! Driver handler for C15: the state is the collection as records (`keys` line: its ids in ANY order, each
record carrying its id as key field and stored under the intercepted id; `sop` lines: the creation / update /
deletion operations of `Records.lean` / `Icpt.lean`), the collection's id interceptor, and what the List RPCs page
over, `flisting` (the key fields in ascending order); `listing` is `Collection.List` (`rlisting`).

```
icpt <id|lower|upper|ns>            → ok                (resource.WithIDInterceptor of the collection, for the lines that follow)
keys <hex,hex,…|->                 → ok <n>            (ids in insertion order; the model sorts)
sop add <hex|-> <hex|->            → ok <hex> | exists | aborted     (id or "-" = empty: generate; candidate id)
sop ensure <hex|->                 → ok <hex> | rejected
sop updm <hex|-> <0|1> <n|k|x|e>   → ok <hex> | notfound | rejected   (Update*(message): create-if-absent; update mask none / with key / without key / non-nil without paths)
sop updi <hex|-> <hex|-> <0|1> <n|k|x|e> → the same for UpdatePublication(id, message carrying that Id)
sop delete <hex|-> <0|1>           → ok <hex> | notfound               (1: allow-missing)
sop initial <hex|->                → ok <hex> | exists | rejected      (a WithInitial… record)
sop hook <hex|-> <w|r|z>           → ok <hex> | failed | notfound | rejected   (Update*(message, InterceptBefore(cb)) without mask: the callback leaves the written key / makes the message a copy of the stored one and records an error / drops the key and records an error; vending Dispense)
sop dispense <hex|-> <u|-> <u|-> <u> → the same for the callback of vending DispenseInstantly: units (enum numbers) Used / Remaining are kept in ("-": not kept), unit dispensed
sop raw <hex|-> <hex|->            → ok <hex> | exists                 (resource.WithInitialRecord(storage id, message with that key field))
listing                            → <hex,…|->        (Collection.List: items by storage id, shown by key field)
page <gt|ge> <size> <E|B|K<hex>>   → ok <hex,…|-> <N|T<hex>> <total> | err <Code> | panic
codec <gt|ge> <hex bytes>           → <first page> | <page after its token>   or   invalid (not UTF-8)
waste <n> <size> <E|B|I<int>> [vis] → ok <i,…|-> <N|T<int>> <total>   | err <Code> | panic   (vis=0: ids hidden, items print as _)
```
Keys travel as the hex of their UTF-8 bytes. -/
namespace ScVerif.C15
open ScVerif.Line

def hexVal? (c : Char) : Option Nat :=
  if '0' ≤ c ∧ c ≤ '9' then some (c.toNat - '0'.toNat)
  else if 'a' ≤ c ∧ c ≤ 'f' then some (c.toNat - 'a'.toNat + 10)
  else none

def hexBytes? : List Char → Option (List UInt8)
  | [] => some []
  | [_] => none
  | a :: b :: rest => do
    let x ← hexVal? a
    let y ← hexVal? b
    let r ← hexBytes? rest
    pure (UInt8.ofNat (x * 16 + y) :: r)

def unhex? (s : String) : Option String := do
  let bs ← hexBytes? s.toList
  String.fromUTF8? (ByteArray.mk bs.toArray)

def hexDigit (n : Nat) : Char := if n < 10 then Char.ofNat (n + 48) else Char.ofNat (n + 87)

def hex (s : String) : String :=
  String.ofList (s.toUTF8.toList.flatMap fun b => [hexDigit (b.toNat / 16), hexDigit (b.toNat % 16)])

def parseKeys? (s : String) : Option (List String) :=
  if s = "-" then some [] else (s.splitOn ",").mapM unhex?

def showKeys (ks : List String) : String :=
  if ks.isEmpty then "-" else ",".intercalate (ks.map hex)

def parseTok? (s : String) : Option Tok :=
  if s = "E" then some .empty
  else if s = "B" then some .bad
  else if s.startsWith "K" then (unhex? (s.drop 1).toString).map .key
  else none

def parseWTok? (s : String) : Option WTok :=
  if s = "E" then some .empty
  else if s = "B" then some .bad
  else if s.startsWith "I" then (parseInt? (s.drop 1).toString).map .idx
  else none

def parseVariant? (s : String) : Option Variant :=
  if s = "gt" then some .gt else if s = "ge" then some .ge else none

def showPage : Out Page → String
  | .ok p => s!"ok {showKeys p.items} {match p.next with | none => "N" | some k => "T" ++ hex k} {p.total}"
  | .err c => "err " ++ c.name
  | .panic => "panic"

def showWPage : Out WPage → String
  | .ok p =>
    let items := if p.items.isEmpty then "-" else ",".intercalate (p.items.map toString)
    s!"ok {items} {match p.next with | none => "N" | some k => "T" ++ toString k} {p.total}"
  | .err c => "err " ++ c.name
  | .panic => "panic"

def unhexId? (s : String) : Option String := if s = "-" then some "" else unhex? s

def showRes : StoreRes → String
  | .ok id => "ok " ++ (if id = "" then "-" else hex id)
  | .alreadyExists => "exists"
  | .notFound => "notfound"
  | .aborted => "aborted"
  | .rejected => "rejected"

/-- Driver state: the collection's records and what the List RPC sees of them (`rlisting`, recomputed after every change). -/
structure St where
  recs : RStore := []
  /-- what the List RPCs page over: the key fields in ascending order (`flisting`) -/
  keys : List String := []
  /-- the collection's id interceptor -/
  f : String → String := id

def St.apply (st : St) (op : RecOp) : St × String :=
  let r := st.recs.istep st.f op
  ({ st with recs := r.1, keys := flisting r.1 }, showRes r.2)

def parseIcpt? (s : String) : Option (String → String) :=
  if s = "id" then some id else if s = "lower" then some asciiLower else if s = "upper" then some asciiUpper
  else if s = "ns" then some (fun x => if x = "" then "ns/" else x) else none

def parseMask? (s : String) : Option Mask :=
  if s = "n" then some .none else if s = "k" then some .withKey else if s = "x" then some .withoutKey
  else if s = "e" then some .empty else none

def stepSt (st : St) (toks : List String) : Option (St × String) :=
  match toks with
  | ["icpt", name] => do
    let f ← parseIcpt? name
    pure ({ st with f := f }, "ok")
  | ["keys", ks] => do
    let l ← parseKeys? ks
    let recs : RStore := l.map fun id => { id := st.f id, key := id }
    pure ({ st with recs := recs, keys := flisting recs }, s!"ok {l.length}")
  | ["sop", "add", id, cand] => do
    let id ← unhexId? id
    let cand ← unhexId? cand
    pure (st.apply (.add id (fun _ => cand)))
  | ["sop", "ensure", id] => do
    let id ← unhexId? id
    pure (st.apply (.ensure id))
  | ["sop", "updm", id, up, mask] => do
    let id ← unhexId? id
    let up ← parseBool? up
    let mask ← parseMask? mask
    pure (st.apply (.updateMsg id up mask))
  | ["sop", "updi", id, msgKey, up, mask] => do
    let id ← unhexId? id
    let msgKey ← unhexId? msgKey
    let up ← parseBool? up
    let mask ← parseMask? mask
    pure (st.apply (.updateId id msgKey up mask))
  | ["sop", "delete", id, allow] => do
    let id ← unhexId? id
    let allow ← parseBool? allow
    pure (st.apply (.delete id allow))
  | ["sop", "initial", id] => do
    let id ← unhexId? id
    pure (st.apply (.initial id))
  | ["sop", "hook", id, g] => do
    let id ← unhexId? id
    let g ← (if g = "w" then some keepNew else if g = "r" then some restoreOld else if g = "z" then some dropKey else none)
    let r := st.recs.hstep st.f (.hooked id g)
    pure ({ st with recs := r.1, keys := flisting r.1 }, match r.2 with | .res x => showRes x | .failed => "failed")
  | ["sop", "dispense", id, used, rem, q] => do
    -- vending Dispense of a stock that keeps Used / Remaining in the given units ("-": not kept), quantity in unit q
    let id ← unhexId? id
    let used ← (if used = "-" then some none else (parseNat? used).map some)
    let rem ← (if rem = "-" then some none else (parseNat? rem).map some)
    let q ← parseNat? q
    let r := st.recs.hstep st.f (.hooked id (dispenseHook used rem q))
    pure ({ st with recs := r.1, keys := flisting r.1 }, match r.2 with | .res x => showRes x | .failed => "failed")
  | ["sop", "raw", sid, key] => do
    -- resource.WithInitialRecord(sid, message whose key field is `key`): a raw resource option, not an API of the models
    let sid ← unhexId? sid
    let key ← unhexId? key
    if st.f sid ∈ st.recs.ids then pure (st, "exists")
    else
      let recs : RStore := { id := st.f sid, key := key } :: st.recs
      pure ({ st with recs := recs, keys := flisting recs }, "ok " ++ (if key = "" then "-" else hex key))
  | ["listing"] => pure (st, showKeys (rlisting st.recs))
  | _ => none

def showWShown : Out WShown → String
  | .ok p =>
    let items := if p.items.isEmpty then "-" else ",".intercalate (p.items.map fun | some i => toString i | none => "_")
    s!"ok {items} {match p.next with | none => "N" | some k => "T" ++ toString k} {p.total}"
  | .err c => "err " ++ c.name
  | .panic => "panic"

def step (keys : List String) (toks : List String) : Option (List String × String) :=
  match toks with
  | ["page", v, size, tok] => do
    let v ← parseVariant? v
    let size ← parseInt? size
    let tok ← parseTok? tok
    pure (keys, showPage (listPage v keys tok size))
  | ["page", v, size, tok, vis] => do
    let v ← parseVariant? v
    let size ← parseInt? size
    let tok ← parseTok? tok
    let vis ← parseBool? vis
    pure (keys, showPage (listPageMasked v keys tok size vis))
  | ["codec", v, h] => do
    -- a one-item listing whose key is the given byte string: mint a token from it and use it
    let v ← parseVariant? v
    let bs ← hexBytes? h.toList
    match String.fromUTF8? (ByteArray.mk bs.toArray) with
    | none => pure (keys, "invalid")        -- not a string: a protobuf string field cannot carry it
    | some s =>
      pure (keys, showPage (listPage v [s] .empty 1) ++ " | " ++ showPage (listPage v [s] (.key s) 1))
  | ["waste", n, size, tok] => do
    let n ← parseNat? n
    let size ← parseInt? size
    let tok ← parseWTok? tok
    pure (keys, showWPage (listWaste n tok size))
  | ["waste", n, size, tok, vis] => do
    let n ← parseNat? n
    let size ← parseInt? size
    let tok ← parseWTok? tok
    let vis ← parseBool? vis
    pure (keys, showWShown (listWasteMasked n tok size vis))
  | _ => none

def handleS (st : St) (toks : List String) : St × String :=
  match stepSt st toks with
  | some r => r
  | none =>
    match step st.keys toks with
    | some r => (st, r.2)
    | none => (st, "!bad-op")

end ScVerif.C15
