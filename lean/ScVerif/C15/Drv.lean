import ScVerif.Base.Line
/-! Driver handler for C15 (stub: replaced by the property's owner). -/
namespace ScVerif.C15

def handle (_toks : List String) : String := "!bad-op"

end ScVerif.C15
