import ScVerif.C15.Chain
namespace ScVerif.C15

/-- Helper for `C15_own_token`. A next_page_token is only ever minted from the LAST item of the page it comes with (an item of the listing,
hence not empty), and a call carrying it — with whatever page size — is served: it resumes right after that item. -/
theorem own_token (v : Variant) {keys : List String} (hs : Sorted keys) (hne : "" ∉ keys)
    (tok : Tok) (htok : tok ≠ .bad) (size : Int) (hsz : 0 ≤ size) (p : Page)
    (hp : listPage v keys tok size = .ok p) (k : String) (hk : p.next = some k) :
    p.items[p.items.length - 1]? = some k ∧ k ∈ keys ∧ k ≠ "" ∧
    ∀ size', 0 ≤ size' → ∃ q, listPage v keys (.key k) size' = .ok q ∧
      (p.items ++ q.items = ((keys.drop (nextIndex v keys (lastKeyOf tok))).take
        ((capPageSize size).toNat + (capPageSize size').toNat))) := by
  obtain ⟨hc1, -, -, -⟩ := capPageSize_bounds size hsz
  have hr := nextIndex_le v keys (lastKeyOf tok)
  rw [listPage_ok v keys tok size htok hsz] at hp
  generalize hrdef : nextIndex v keys (lastKeyOf tok) = r at hr hp
  obtain ⟨c, hc⟩ : ∃ c : Nat, (capPageSize size).toNat = c := ⟨_, rfl⟩
  have hcpos : 1 ≤ c := by omega
  rw [hc] at hp
  cases hp
  simp only at hk
  by_cases hle : r + c ≤ keys.length
  · simp only [hle, if_true, Option.some.injEq] at hk
    have hm : r + c - 1 < keys.length := by omega
    have hkm : k ∈ keys := hk ▸ keyAt_mem keys _ hm
    refine ⟨?_, hkm, fun e => hne (e ▸ hkm), ?_⟩
    · simp only [List.length_take, List.length_drop]
      rw [show min c (keys.length - r) - 1 = c - 1 by omega]
      rw [List.getElem?_take_of_lt (by omega), List.getElem?_drop, ← hk]
      rw [show r + (c - 1) = r + c - 1 by omega]
      exact getElem?_eq_keyAt keys _ hm
    · intro size' hsz'
      refine ⟨_, listPage_ok v keys (.key k) size' (by simp) hsz', ?_⟩
      simp only [lastKeyOf]
      rw [← hk, nextIndex_keyAt v hs hne _ hm, show r + c - 1 + 1 = r + c by omega]
      rw [← List.drop_drop, List.take_add, hc]
  · simp [hle] at hk

end ScVerif.C15
