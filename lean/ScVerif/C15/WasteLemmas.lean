import ScVerif.C15.Paging
/-! Lemmas about waste's index paging. -/
namespace ScVerif.C15

/-- `down k m` = `[k-1, k-2, …]`, `m` entries (fewer when 0 is reached). -/
def down : Nat → Nat → List Nat
  | 0, _ => []
  | _ + 1, 0 => []
  | k + 1, m + 1 => k :: down k m

theorem down_zero (k : Nat) : down k 0 = [] := by cases k <;> rfl

theorem length_down : ∀ k m, (down k m).length = min k m := by
  intro k
  induction k with
  | zero => intro m; simp [down]
  | succ k ih =>
    intro m
    cases m with
    | zero => simp [down]
    | succ m => simp only [down, List.length_cons, ih]; omega

theorem down_append : ∀ k c m, c ≤ k → down k c ++ down (k - c) m = down k (c + m) := by
  intro k
  induction k with
  | zero => intro c m h; have : c = 0 := by omega
            subst this; simp [down]
  | succ k ih =>
    intro c m h
    cases c with
    | zero => simp [down_zero]
    | succ c =>
      have h1 : k + 1 - (c + 1) = k - c := by omega
      have h2 : c + 1 + m = (c + m) + 1 := by omega
      rw [h1, h2]
      simp only [down, List.cons_append]
      rw [ih c m (by omega)]

/-- The listing's order: newest (highest index) first. -/
theorem down_self : ∀ k, down k k = (List.range k).reverse := by
  intro k
  induction k with
  | zero => rfl
  | succ k ih => simp only [down, ih, List.range_succ, List.reverse_append, List.reverse_cons, List.reverse_nil, List.nil_append, List.cons_append]

theorem wasteLoop_spec (n : Nat) : ∀ k (acc : List Nat) (c : Nat), k ≤ n → 1 ≤ c →
    wasteLoop n ((acc.length + c : Nat) : Int) k acc = .ok (acc ++ down k c) := by
  intro k
  induction k with
  | zero => intro acc c _ _; simp [wasteLoop, down]
  | succ k ih =>
    intro acc c hk hc
    unfold wasteLoop
    have hkn : k < n := by omega
    simp only [hkn, if_true]
    by_cases h1 : c = 1
    · subst h1
      have : ((acc.length + 1 : Nat) : Int) ≤ ((acc ++ [k]).length : Nat) := by simp
      simp only [this, if_true, down, down_zero]
    · have : ¬ ((acc.length + c : Nat) : Int) ≤ ((acc ++ [k]).length : Nat) := by
        simp only [List.length_append, List.length_cons, List.length_nil]; omega
      simp only [this, if_false]
      have h2 : acc.length + c = (acc ++ [k]).length + (c - 1) := by
        simp only [List.length_append, List.length_cons, List.length_nil]; omega
      rw [h2, ih (acc ++ [k]) (c - 1) (by omega) (by omega)]
      obtain ⟨c', rfl⟩ : ∃ c', c = c' + 1 := ⟨c - 1, by omega⟩
      simp [down]

theorem wasteCount_bounds (size : Int) (h : 0 ≤ size) :
    1 ≤ wasteCount size ∧ wasteCount size ≤ 1000 ∧ (size ≠ 0 → wasteCount size ≤ size) ∧
    (size = 0 → wasteCount size = 50) := by
  unfold wasteCount
  split
  · omega
  · split <;> omega

/-- A page of a well-formed request. -/
theorem wastePageOf_ok (n : Nat) (start : Nat) (c : Nat) (hstart : start ≤ n) (hc : 1 ≤ c) :
    wastePageOf n (start : Int) (c : Int) =
      .ok ⟨down start c, if c < start then some ((start : Int) - c) else none, n⟩ := by
  unfold wastePageOf wasteRecords
  have := wasteLoop_spec n start [] c hstart hc
  simp only [List.length_nil, Nat.zero_add, List.nil_append] at this
  simp only [Int.toNat_natCast, this, length_down]
  congr 2
  by_cases h : c < start
  · have h1 : (c : Int) = ((min start c : Nat) : Int) := by omega
    have h2 : (start : Int) - c > 0 := by omega
    simp [h, h1]
    omega
  · by_cases h1 : (c : Int) = ((min start c : Nat) : Int)
    · have h2 : ¬ (start : Int) - c > 0 := by omega
      simp only [h1, h]
      simp
      omega
    · simp [h1, h]

theorem down_of_le : ∀ k c, k ≤ c → down k c = down k k := by
  intro k
  induction k with
  | zero => intro c _; simp [down]
  | succ k ih =>
    intro c h
    obtain ⟨c', rfl⟩ : ∃ c', c = c' + 1 := ⟨c - 1, by omega⟩
    simp only [down]
    rw [ih c' (by omega)]

theorem listWaste_idx_ok (n start : Nat) (size : Int) (hstart : start ≤ n) (hsz : 0 ≤ size) :
    listWaste n (.idx start) size =
      .ok ⟨down start (wasteCount size).toNat,
        if (wasteCount size).toNat < start then some ((start : Int) - (wasteCount size).toNat) else none, n⟩ := by
  obtain ⟨h1, -, -, -⟩ := wasteCount_bounds size hsz
  have hr : ¬ ((start : Int) < 0 ∨ (start : Int) > n) := by omega
  have hn : ¬ size < 0 := by omega
  simp only [listWaste, hr, hn, if_false]
  obtain ⟨c, hc⟩ : ∃ c : Nat, wasteCount size = (c : Int) := ⟨(wasteCount size).toNat, by omega⟩
  rw [hc, wastePageOf_ok n start c hstart (by omega)]
  simp only [Int.toNat_natCast]

theorem listWaste_empty (n : Nat) (size : Int) : listWaste n .empty size = listWaste n (.idx n) size := by
  have hr : ¬ ((n : Int) < 0 ∨ (n : Int) > n) := by omega
  simp only [listWaste, hr, if_false]

theorem wasteChain_empty (n : Nat) (size : Nat → Int) (fuel i : Nat) :
    wasteChain n size fuel i .empty = wasteChain n size fuel i (.idx n) := by
  cases fuel with
  | zero => rfl
  | succ fuel => simp only [wasteChain, listWaste_empty]

def WPagesOk (n : Nat) (size : Nat → Int) : Nat → List WPage → Prop
  | _, [] => True
  | i, p :: ps => p.items.length ≤ (wasteCount (size i)).toNat ∧ p.total = n ∧ WPagesOk n size (i + 1) ps

theorem wasteChain_from (n : Nat) (size : Nat → Int) (hsz : ∀ i, 0 ≤ size i) :
    ∀ fuel i (start : Nat), start ≤ n → start < fuel →
      ∃ pages, wasteChain n size fuel i (.idx start) = some pages ∧
        (pages.map (·.items)).flatten = down start start ∧
        pages.length ≤ start + 1 ∧ WPagesOk n size i pages := by
  intro fuel
  induction fuel with
  | zero => intro i start _ h; omega
  | succ fuel ih =>
    intro i start hstart hfuel
    obtain ⟨hc1, -, -, -⟩ := wasteCount_bounds (size i) (hsz i)
    unfold wasteChain
    rw [listWaste_idx_ok n start (size i) hstart (hsz i)]
    generalize hcdef : (wasteCount (size i)).toNat = c
    have hc : 1 ≤ c := by omega
    by_cases hlt : c < start
    · simp only [hlt, if_true]
      have hcast : (start : Int) - (c : Int) = ((start - c : Nat) : Int) := by omega
      rw [hcast]
      obtain ⟨pages, hch, hfl, hlen, hok⟩ := ih (i + 1) (start - c) (by omega) (by omega)
      refine ⟨_ :: pages, by rw [hch]; rfl, ?_, ?_, ?_⟩
      · simp only [List.map_cons, List.flatten_cons, hfl]
        rw [down_append start c (start - c) (by omega)]
        congr 1; omega
      · simp only [List.length_cons]; omega
      · refine ⟨?_, rfl, hok⟩
        simp only [length_down, hcdef]; omega
    · simp only [hlt, if_false]
      refine ⟨_, rfl, ?_, ?_, ?_⟩
      · simp only [List.map_cons, List.map_nil, List.flatten_cons, List.flatten_nil, List.append_nil]
        exact down_of_le start c (by omega)
      · simp
      · refine ⟨?_, rfl, trivial⟩
        simp only [length_down, hcdef]; omega

end ScVerif.C15
