import ScVerif.C15.Paging
/-!
C15 — writes in flight while a client pages.

The property holds the contents fixed while paging.  A write that is REFUSED does not change the contents, so a
client paging while such a write is being processed must see exactly the collection as it is: the write APIs of the
models take the caller's `resource.WriteOption`s (`WithExpectedCheck`, `WithExpectedValue`, update masks on a model
with `WithWritableFields`, interceptors), whose callbacks run with NO lock held (`GetAndUpdate`'s contract), so "being
processed" lasts as long as the caller's callback and List calls can run in the middle of it.

The code has two phases per write, and only the second touches what the listers read:

* `Collection.Update` / `Value.Set` (`GetAndUpdate`): read under RLock → preconditions, callbacks, merge with no
  lock held (the verdict: accepted or refused) → under Lock re-check and store (`byId[id] = …`) — only if accepted;
* wastepb `AddWasteRecord(wr, opts…)`: `lastWasteRecord.Set(wr, opts…)` first (the verdict), and only an accepted
  record is appended to `allWasteRecords` — the slice `GetWasteRecordCount` / `ListWasteRecords` read.

`Sys σ` is that structure for any state `σ` (the records of a collection, the record list of waste): the committed
state and the calls that are inside their verdict phase, each with its verdict and with what it will do to the state
when it commits.  Events: a call enters (`begin`), a call leaves (`finish i`: commits if accepted, vanishes if
refused); List calls read `st` at any point in between and keep nothing from one call to the next.  Two results:
refused calls are invisible at every point (`refused_invisible`), and accepted calls take effect exactly once, when
they finish, in finishing order (`run_st_commits`) — a listing taken while a write waits in its callback is the
listing before that write, and no List call after the write returned can still answer with it.
-/
namespace ScVerif.C15

structure Sys (σ : Type) where
  /-- what the listers read: `byId` / `allWasteRecords` -/
  st : σ
  /-- calls between their first read and their commit: (accepted?, the commit) -/
  pending : List (Bool × (σ → σ))

inductive Ev (σ : Type) where
  | begin (accept : Bool) (commit : σ → σ)
  | finish (i : Nat)

def Sys.step {σ} (s : Sys σ) : Ev σ → Sys σ
  | .begin a c => { s with pending := s.pending ++ [(a, c)] }
  | .finish i =>
    match s.pending[i]? with
    | none => s
    | some (a, c) => { st := if a then c s.st else s.st, pending := s.pending.eraseIdx i }

def Sys.run {σ} (s : Sys σ) : List (Ev σ) → Sys σ
  | [] => s
  | e :: es => Sys.run (s.step e) es

/-- Every call in flight, and every call that enters, is one that will be refused. -/
def AllRefused {σ} (s : Sys σ) (evs : List (Ev σ)) : Prop :=
  (∀ p ∈ s.pending, p.1 = false) ∧ ∀ a c, Ev.begin a c ∈ evs → a = false

theorem refused_step {σ} (s : Sys σ) (e : Ev σ) (hp : ∀ p ∈ s.pending, p.1 = false)
    (he : ∀ a c, e = .begin a c → a = false) :
    (s.step e).st = s.st ∧ ∀ p ∈ (s.step e).pending, p.1 = false := by
  cases e with
  | begin a c =>
    refine ⟨rfl, ?_⟩
    intro p hm
    simp only [Sys.step, List.mem_append, List.mem_singleton] at hm
    rcases hm with hm | rfl
    · exact hp p hm
    · exact he a c rfl
  | finish i =>
    simp only [Sys.step]
    cases hi : s.pending[i]? with
    | none => exact ⟨rfl, hp⟩
    | some ac =>
      obtain ⟨a, c⟩ := ac
      have ha : a = false := hp (a, c) (List.mem_of_getElem? hi)
      subst ha
      refine ⟨by simp, ?_⟩
      intro p hm
      exact hp p (List.mem_of_mem_eraseIdx hm)

/-- Refused writes are invisible at EVERY point of EVERY interleaving. -/
theorem refused_invisible {σ} : ∀ (evs : List (Ev σ)) (s : Sys σ), AllRefused s evs →
    ∀ pre, pre <+: evs → (s.run pre).st = s.st := by
  intro evs
  induction evs with
  | nil =>
    intro s _ pre hpre
    have : pre = [] := List.prefix_nil.mp hpre
    subst this; rfl
  | cons e es ih =>
    intro s h pre hpre
    cases pre with
    | nil => rfl
    | cons e' pre' =>
      obtain ⟨he, hpre'⟩ := List.cons_prefix_cons.mp hpre
      subst he
      obtain ⟨h1, h2⟩ := refused_step s e' h.1 (fun a c e => h.2 a c (e ▸ List.mem_cons_self))
      have := ih (s.step e') ⟨h2, fun a c hm => h.2 a c (List.mem_cons_of_mem _ hm)⟩ pre' hpre'
      simp only [Sys.run]
      rw [this, h1]

/-! ### Accepted writes: each takes effect exactly once, at the moment its call finishes

The listers read `st` and nothing else: no List call keeps anything between calls (each reads the collection /
the record slice again), so what a List call answers at any point of any interleaving is determined by the commits
of the calls that have FINISHED so far. -/

/-- The commits that take effect along an interleaving, in the order in which their calls finish. -/
def Sys.commits {σ} (s : Sys σ) : List (Ev σ) → List (σ → σ)
  | [] => []
  | e :: es =>
    (match e with
     | .finish i =>
       match s.pending[i]? with
       | some (true, c) => [c]
       | _ => []
     | .begin _ _ => []) ++ Sys.commits (s.step e) es

/-- The commits applied one after the other. -/
def applyAll {σ} (st : σ) (cs : List (σ → σ)) : σ := cs.foldl (fun st c => c st) st

theorem applyAll_append {σ} (st : σ) (a b : List (σ → σ)) : applyAll st (a ++ b) = applyAll (applyAll st a) b := by
  simp [applyAll, List.foldl_append]

theorem step_st_commits {σ} (s : Sys σ) (e : Ev σ) :
    (s.step e).st = applyAll s.st (match e with
     | .finish i =>
       match s.pending[i]? with
       | some (true, c) => [c]
       | _ => []
     | .begin _ _ => []) := by
  cases e with
  | begin a c => rfl
  | finish i =>
    simp only [Sys.step]
    cases hi : s.pending[i]? with
    | none => rfl
    | some ac =>
      obtain ⟨a, c⟩ := ac
      cases a <;> simp [applyAll]

/-- At the end of ANY interleaving the state the listers read is the initial one with the commits of the accepted
calls that have finished, applied once each in finishing order. -/
theorem run_st_commits {σ} : ∀ (evs : List (Ev σ)) (s : Sys σ), (s.run evs).st = applyAll s.st (s.commits evs) := by
  intro evs
  induction evs with
  | nil => intro s; rfl
  | cons e es ih =>
    intro s
    simp only [Sys.run, Sys.commits]
    rw [ih (s.step e), applyAll_append, ← step_st_commits]

theorem run_append {σ} : ∀ (a b : List (Ev σ)) (s : Sys σ), s.run (a ++ b) = (s.run a).run b := by
  intro a
  induction a with
  | nil => intro b s; rfl
  | cons e es ih => intro b s; simp only [List.cons_append, Sys.run]; exact ih b _

theorem commits_append {σ} : ∀ (a b : List (Ev σ)) (s : Sys σ),
    s.commits (a ++ b) = s.commits a ++ (s.run a).commits b := by
  intro a
  induction a with
  | nil => intro b s; rfl
  | cons e es ih =>
    intro b s
    simp only [List.cons_append, Sys.commits, Sys.run, List.append_assoc]
    rw [ih b]

/-- wastepb `AddWasteRecord(r, opts…)` as a call of `Sys`: the commit appends the record. -/
def wasteAdd (accept : Bool) (r : Nat) : Ev (List Nat) := .begin accept (· ++ [r])

end ScVerif.C15
