import ScVerif.C15.Records
/-!
C15 — collections configured with `resource.WithIDInterceptor(f)`.

`NewModel(resource.WithIDInterceptor(f))` hands the interceptor to every collection of the six key-token models.
`Collection.Update` / `Add` / `Delete` / `Get` map the id they are given through `f` BEFORE it is used as the map key
(`id = c.idInterceptor(id)`), while the stored message keeps the spelling it was written with: a child added as
`Alpha` under `strings.ToLower` lives under the key `alpha` and carries `Name: "Alpha"`.  So

* `Collection.List` (sorted by map KEY) is in general NOT ascending in the key FIELD the List RPCs search and mint
  tokens from (`rlisting`): keys `alpha, beta, delta` carry `Alpha, beta, Delta`;
* parent `ListChildren` has always re-sorted by `Name` before it searches; since the fix of this round
  ListModes / ListHails / ListPublications / ListConsumables / ListInventory re-sort by their key field too, so all
  six page over `flisting`: the key FIELDS in ascending order.

The operations (`istep f`) follow the same code as `RStore.step`, with the interceptor where the code applies it:

* `Collection.Add(id, msg, WithGenIDIfAbsent(), WithIDCallback(…))`: `id = f(id)`; when the id AS GIVEN is empty
  (929e9c0: decided before the interceptor runs; `istepWith false` is the code before it, which looked at `f(id)`
  only) or `f(id)` is empty an id is generated: `genID` probes `f(candidate)` for existence and returns `f(candidate)`, which the callback writes into
  the message; otherwise the message keeps its own spelling `id` and is stored under `f(id)`;
* parent `AddChild` (`ensure`): an existing child (same `f(name)`) is left alone, whatever its spelling;
* `Update*(msg)`, `UpdatePublication(id, msg)`, parent `AddChildTrait(name)` (= a create-if-absent update of
  `{Name: name}`) and `RemoveChildTrait(name)` (= an update): stored under `f(id)`; the key field is always among the
  written fields, so an existing item is RE-SPELLED to `id`;
* `Delete*(id)` removes `f(id)`;
* initial records (`WithInitial…(msg)`, `resource.WithInitialRecord(id, msg)`): since 215ba16 `NewCollection` keeps
  a record under `f(id)` like every other route (before it the record was kept under the id as configured and was
  unreachable by id: `istepWith false`), and two initial records that `f` maps to one id are refused (panic at
  construction, as a repeated id always was).
-/
namespace ScVerif.C15

/-- The key FIELDS of the stored messages in ascending order: what the six List RPCs page over (parent always;
the other five since they sort by the field they search). -/
def flisting (s : RStore) : List String := sortKeys (s.map (·.key))

/-- `Collection.Update(id, msg{key: fld}, …)` under the storage id `sid`; the code answers with the written message,
whose key field is `fld`. -/
def RStore.iwrite (s : RStore) (sid fld : String) (upsert writesKey : Bool) : RStore × StoreRes :=
  let r := s.write sid fld upsert writesKey
  (r.1, match r.2 with | .ok _ => .ok fld | x => x)

def RStore.istepWith (fixed : Bool) (f : String → String) (s : RStore) : RecOp → RStore × StoreRes
  | .add id cand =>
    match (if (fixed = true ∧ id = "") ∨ f id = "" then (genId cand (fun c => decide (f c ∈ s.ids)) 10 0).map (fun c => (f c, f c))
           else some (f id, id)) with
    | none => (s, .aborted)
    | some (sid, fld) => if sid ∈ s.ids then (s, .alreadyExists) else ({ id := sid, key := fld } :: s, .ok fld)
  | .ensure name =>
    if name = "" then (s, .rejected)
    else if f name ∈ s.ids then (s, .ok name) else ({ id := f name, key := name } :: s, .ok name)
  | .updateMsg k upsert mask =>
    if k = "" then (s, .rejected)
    else s.iwrite (f k) k upsert mask.moreKey.writesKey
  | .updateId id msgKey upsert mask =>
    if id = "" then (s, .rejected)
    else s.iwrite (f id) (if msgKey ≠ id then id else msgKey) upsert mask.moreKey.writesKey
  | .delete id allowMissing =>
    if f id ∈ s.ids then (s.filter (fun r => r.id != f id), .ok id)
    else if allowMissing then (s, .ok id) else (s, .notFound)
  | .initial key =>
    let sid := if fixed then f key else key
    if key = "" then (s, .rejected)
    else if sid ∈ s.ids then (s, .alreadyExists) else ({ id := sid, key := key } :: s, .ok key)

/-- The code as it is now (initial records intercepted: 215ba16). -/
def RStore.istep (f : String → String) (s : RStore) (op : RecOp) : RStore × StoreRes := s.istepWith true f op

def RStore.irunWith (fixed : Bool) (f : String → String) (s : RStore) : List RecOp → RStore
  | [] => s
  | op :: ops => RStore.irunWith fixed f (s.istepWith fixed f op).1 ops

def RStore.irun (f : String → String) (s : RStore) : List RecOp → RStore
  | [] => s
  | op :: ops => RStore.irun f (s.istep f op).1 ops

/-- Invariant under an interceptor: the map has no duplicate key, every item is stored under the intercepted
spelling of its key field, and no key field is empty. -/
def RStore.IInv (f : String → String) (s : RStore) : Prop :=
  s.ids.Nodup ∧ ∀ r ∈ s, r.id = f r.key ∧ r.key ≠ ""

theorem RStore.iinv_nil (f : String → String) : RStore.IInv f [] := ⟨List.nodup_nil, by simp⟩

theorem iinv_cons {f : String → String} {s : RStore} (h : s.IInv f) {sid fld : String}
    (hm : sid ∉ s.ids) (hid : sid = f fld) (hne : fld ≠ "") : RStore.IInv f ({ id := sid, key := fld } :: s) := by
  refine ⟨by rw [RStore.ids_cons]; exact List.nodup_cons.mpr ⟨hm, h.1⟩, ?_⟩
  intro r hr
  rcases List.mem_cons.mp hr with e | hr
  · subst e; exact ⟨hid, hne⟩
  · exact h.2 r hr

/-- A write of the message whose key field is `fld` under `f fld` keeps the invariant (the key field is among the
written fields: `WithMoreUpdatePaths(key)`). -/
theorem write_iinv {f : String → String} {s : RStore} (h : s.IInv f) (fld : String) (hne : fld ≠ "")
    (upsert : Bool) : (s.write (f fld) fld upsert true).1.IInv f := by
  unfold RStore.write
  by_cases hm : f fld ∈ s.ids
  · simp only [hm, if_true]
    refine ⟨by rw [ids_map_key]; exact h.1, ?_⟩
    intro r hr
    obtain ⟨r', hr', rfl⟩ := List.mem_map.mp hr
    by_cases e : r'.id = f fld
    · simp [e, hne]
    · simp only [e, if_false]; exact h.2 r' hr'
  · simp only [hm, if_false]
    cases upsert with
    | false => exact h
    | true => exact iinv_cons h hm rfl hne

/-- The hypotheses on the interceptor. -/
structure GoodIcpt (f : String → String) : Prop where
  /-- a non-empty id is not mapped to the empty one -/
  nonempty : ∀ x, x ≠ "" → f x ≠ ""
  /-- normalising twice is normalising once -/
  idem : ∀ x, f (f x) = f x

theorem RStore.istep_iinv {f : String → String} (hf : GoodIcpt f) (s : RStore) (op : RecOp) (h : s.IInv f) :
    (s.istep f op).1.IInv f := by
  cases op with
  | add id cand =>
    simp only [RStore.istep, RStore.istepWith, true_and]
    by_cases he : id = "" ∨ f id = ""
    · simp only [he, if_true]
      cases hg : genId cand (fun c => decide (f c ∈ s.ids)) 10 0 with
      | none => exact h
      | some c =>
        simp only [Option.map_some]
        obtain ⟨hc, hu⟩ := genId_spec _ _ _ _ _ hg
        have hm : f c ∉ s.ids := by simpa using hu
        simp only [hm, if_false]
        exact iinv_cons h hm (hf.idem c).symm (hf.nonempty c hc)
    · simp only [he, if_false]
      by_cases hm : f id ∈ s.ids
      · simp only [hm, if_true]; exact h
      · simp only [hm, if_false]
        have hid : id ≠ "" := fun e => he (Or.inl e)
        exact iinv_cons h hm rfl hid
  | ensure name =>
    simp only [RStore.istep, RStore.istepWith]
    by_cases hn : name = ""
    · simp only [hn, if_true]; exact h
    · simp only [hn, if_false]
      by_cases hm : f name ∈ s.ids
      · simp only [hm, if_true]; exact h
      · simp only [hm, if_false]; exact iinv_cons h hm rfl hn
  | updateMsg k upsert mask =>
    simp only [RStore.istep, RStore.istepWith, RStore.iwrite, Mask.moreKey_writesKey]
    by_cases hk : k = ""
    · simp only [hk, if_true]; exact h
    · simp only [hk, if_false]; exact write_iinv h k hk upsert
  | updateId id msgKey upsert mask =>
    simp only [RStore.istep, RStore.istepWith, RStore.iwrite, Mask.moreKey_writesKey]
    by_cases hk : id = ""
    · simp only [hk, if_true]; exact h
    · simp only [hk, if_false]
      have hw : (if msgKey ≠ id then id else msgKey) = id := by
        by_cases e : msgKey = id <;> simp [e]
      rw [hw]
      exact write_iinv h id hk upsert
  | delete id allowMissing =>
    simp only [RStore.istep, RStore.istepWith]
    by_cases hm : f id ∈ s.ids
    · simp only [hm, if_true]
      refine ⟨?_, fun r hr => h.2 r (List.mem_filter.mp hr).1⟩
      rw [filter_ids_erase s (f id) h.1]
      exact h.1.erase _
    · simp only [hm, if_false]
      cases allowMissing <;> exact h
  | initial key =>
    simp only [RStore.istep, RStore.istepWith]
    by_cases hn : key = ""
    · simp only [hn, if_true]; exact h
    · simp only [hn, if_false, if_true]
      by_cases hm : f key ∈ s.ids
      · simp only [hm, if_true]; exact h
      · simp only [hm, if_false]
        exact iinv_cons h hm rfl hn

theorem RStore.irun_iinv {f : String → String} (hf : GoodIcpt f) : ∀ (ops : List RecOp) (s : RStore), s.IInv f →
    (s.irun f ops).IInv f := by
  intro ops
  induction ops with
  | nil => intro s h; exact h
  | cons op ops ih =>
    intro s h
    exact ih _ (s.istep_iinv hf op h)

/-- Distinct map keys + `id = f key` ⇒ distinct key fields. -/
theorem keys_nodup {f : String → String} : ∀ {s : RStore}, s.IInv f → (s.map (·.key)).Nodup := by
  intro s
  induction s with
  | nil => intro _; exact List.nodup_nil
  | cons r rs ih =>
    intro h
    have hnd := List.nodup_cons.mp (by simpa [RStore.ids] using h.1 : (r.id :: rs.map (·.id)).Nodup)
    have hrs : RStore.IInv f rs := ⟨by simpa [RStore.ids] using hnd.2, fun x hx => h.2 x (List.mem_cons_of_mem _ hx)⟩
    rw [List.map_cons]
    refine List.nodup_cons.mpr ⟨?_, ih hrs⟩
    intro hm
    obtain ⟨r', hr', hk⟩ := List.mem_map.mp hm
    apply hnd.1
    have e1 := (h.2 r List.mem_cons_self).1
    have e2 := (h.2 r' (List.mem_cons_of_mem _ hr')).1
    rw [e1, ← hk, ← e2]
    exact List.mem_map_of_mem hr'

/-- Under the invariant the sequence the RPCs page over is strictly ascending, has no empty key, and holds exactly
the key fields of the stored items, each once. -/
theorem flisting_facts {f : String → String} {s : RStore} (h : s.IInv f) :
    Sorted (flisting s) ∧ "" ∉ flisting s ∧ (flisting s).length = s.length ∧
    ∀ x, x ∈ flisting s ↔ ∃ r ∈ s, r.key = x := by
  refine ⟨sorted_sortKeys (keys_nodup h), ?_, by simp [flisting, length_sortKeys], ?_⟩
  · intro hm
    obtain ⟨r, hr, hk⟩ := List.mem_map.mp (mem_sortKeys.mp hm)
    exact (h.2 r hr).2 hk
  · intro x
    unfold flisting
    rw [mem_sortKeys, List.mem_map]

/-- Without an interceptor nothing changes: the operations are those of `Records.lean` … -/
theorem RStore.istep_id (s : RStore) (op : RecOp) : s.istep id op = s.step op := by
  cases op with
  | add i cand =>
    simp only [RStore.istep, RStore.istepWith, RStore.step, RStore.stepWith, id, true_and, or_self]
    by_cases he : i = ""
    · simp only [he, if_true]
      cases genId cand (fun c => decide (c ∈ s.ids)) 10 0 <;> rfl
    · simp only [he, if_false]
  | ensure name => rfl
  | updateMsg k upsert mask =>
    simp only [RStore.istep, RStore.istepWith, RStore.step, RStore.stepWith, RStore.iwrite, id, if_true]
    by_cases hk : k = ""
    · simp [hk]
    · simp only [hk, if_false]
      unfold RStore.write
      by_cases hm : k ∈ s.ids
      · simp [hm]
      · cases upsert <;> simp [hm]
  | updateId i msgKey upsert mask =>
    simp only [RStore.istep, RStore.istepWith, RStore.step, RStore.stepWith, RStore.iwrite, id, if_true, Bool.true_and,
      decide_eq_true_eq]
    by_cases hk : i = ""
    · simp [hk]
    · simp only [hk, if_false]
      have hw : (if msgKey ≠ i then i else msgKey) = i := by
        by_cases e : msgKey = i <;> simp [e]
      rw [hw]
      unfold RStore.write
      by_cases hm : i ∈ s.ids
      · simp [hm]
      · cases upsert <;> simp [hm]
  | delete i allowMissing => rfl
  | initial key => rfl

theorem RStore.irun_id : ∀ (ops : List RecOp) (s : RStore), s.irun id ops = s.run ops := by
  intro ops
  induction ops with
  | nil => intro s; rfl
  | cons op ops ih =>
    intro s
    simp only [RStore.irun, RStore.run, RStore.runWith]
    rw [RStore.istep_id, ih]
    rfl

/-- … and sorting by key field is sorting by storage id (`Records.lean`'s invariant: they are the same string). -/
theorem flisting_eq_rlisting {s : RStore} (h : s.Inv) : flisting s = rlisting s := by
  rw [rlisting_eq h]
  unfold flisting listing
  congr 1
  exact List.map_congr_left (fun r hr => h.2 r hr)

/-! ### The driver's closed family of interceptors (shared with the harness) -/

/-- ASCII lower-casing (the harness passes the same byte-wise function to `resource.WithIDInterceptor`). -/
def asciiLower (s : String) : String := s.map Char.toLower
def asciiUpper (s : String) : String := s.map Char.toUpper

/-! ### per-character normalisations are good interceptors -/

theorem toLower_of_not (d : Char) (h : ¬ (d.val ≥ 'A'.val ∧ d.val ≤ 'Z'.val)) : d.toLower = d := by
  unfold Char.toLower; rw [dif_neg h]

theorem toLower_idem (c : Char) : c.toLower.toLower = c.toLower := by
  by_cases h : c.val ≥ 'A'.val ∧ c.val ≤ 'Z'.val
  · have e : (c.toLower).val = c.val + ('a'.val - 'A'.val) := by
      unfold Char.toLower; rw [dif_pos h]
    have h2 : ¬ ((c.toLower).val ≥ 'A'.val ∧ (c.toLower).val ≤ 'Z'.val) := by
      rw [e]
      obtain ⟨a, b⟩ := h
      rw [ge_iff_le, UInt32.le_iff_toNat_le] at a
      rw [UInt32.le_iff_toNat_le] at b
      intro ⟨x, y⟩
      rw [UInt32.le_iff_toNat_le] at y
      have z : ('Z'.val).toNat = 90 := by decide
      have z2 : ('A'.val).toNat = 65 := by decide
      have : (c.val + ('a'.val - 'A'.val)).toNat = c.val.toNat + 32 := by
        rw [UInt32.toNat_add]
        have : ('a'.val - 'A'.val).toNat = 32 := by decide
        rw [this]
        omega
      omega
    exact toLower_of_not _ h2
  · rw [toLower_of_not c h, toLower_of_not c h]

theorem toUpper_of_not (d : Char) (h : ¬ (d.val ≥ 'a'.val ∧ d.val ≤ 'z'.val)) : d.toUpper = d := by
  unfold Char.toUpper; rw [dif_neg h]

theorem toUpper_idem (c : Char) : c.toUpper.toUpper = c.toUpper := by
  by_cases h : c.val ≥ 'a'.val ∧ c.val ≤ 'z'.val
  · have e : (c.toUpper).val = c.val + ('A'.val - 'a'.val) := by
      unfold Char.toUpper; rw [dif_pos h]
    have h2 : ¬ ((c.toUpper).val ≥ 'a'.val ∧ (c.toUpper).val ≤ 'z'.val) := by
      rw [e]
      obtain ⟨a, b⟩ := h
      rw [ge_iff_le, UInt32.le_iff_toNat_le] at a
      rw [UInt32.le_iff_toNat_le] at b
      intro ⟨x, y⟩
      rw [ge_iff_le, UInt32.le_iff_toNat_le] at x
      have z : ('z'.val).toNat = 122 := by decide
      have z2 : ('a'.val).toNat = 97 := by decide
      have : (c.val + ('A'.val - 'a'.val)).toNat = c.val.toNat - 32 := by
        rw [UInt32.toNat_add]
        have : ('A'.val - 'a'.val).toNat = 4294967264 := by decide
        rw [this]
        omega
      omega
    exact toUpper_of_not _ h2
  · rw [toUpper_of_not c h, toUpper_of_not c h]

theorem map_good (g : Char → Char) (hg : ∀ c, g (g c) = g c) : GoodIcpt (String.map g) := by
  refine ⟨?_, ?_⟩
  · intro x hx h
    have := congrArg String.toList h
    simp [String.toList_map] at this
    exact hx this
  · intro x
    rw [String.map_map]
    congr 1
    funext c
    exact hg c

/-- A case-folding interceptor on two letters, for the examples of `Props.lean` (string literals only, so that the
kernel can evaluate it). -/
def foldAB (s : String) : String := if s = "A" then "a" else if s = "B" then "b" else s

end ScVerif.C15
