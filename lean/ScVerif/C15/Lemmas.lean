import ScVerif.C15.Paging
/-! Lemmas for C15 (helper statements; the property theorems are in `Props.lean`). -/
namespace ScVerif.C15

/-- The listing handed to the paging code: strictly ascending keys (sorted, no duplicates). -/
def Sorted (keys : List String) : Prop := keys.Pairwise (· < ·)

/-- Spec: the keys that come after `lastKey` in the listing ("" = from the start). -/
def after (keys : List String) (lastKey : String) : List String :=
  if lastKey = "" then keys else keys.filter (fun x => decide (lastKey < x))

/-! ### sort.Search -/

theorem searchLoop_le (f : Nat → Bool) : ∀ fuel i j, i ≤ j → searchLoop f fuel i j ≤ j := by
  intro fuel
  induction fuel with
  | zero => intro i j h; simpa [searchLoop] using h
  | succ fuel ih =>
    intro i j hij
    unfold searchLoop
    by_cases hlt : i < j
    · simp only [hlt, if_true]
      by_cases hf : f ((i + j) / 2) = true
      · simp only [hf, Bool.not_true, Bool.false_eq_true, if_false]
        have := ih i ((i + j) / 2) (by omega)
        omega
      · have hf' : f ((i + j) / 2) = false := by simpa using hf
        simp only [hf', Bool.not_false, if_true]
        exact ih _ _ (by omega)
    · simp only [hlt, if_false]; exact hij

/-- Binary search finds the boundary of a monotone predicate. -/
theorem searchLoop_spec (f : Nat → Bool) (n : Nat)
    (mono : ∀ a b, a ≤ b → b < n → f a = true → f b = true) :
    ∀ fuel i j, i ≤ j → j ≤ n → j - i ≤ fuel →
      (∀ k, k < i → f k = false) → (∀ k, j ≤ k → k < n → f k = true) →
      searchLoop f fuel i j ≤ n ∧ (∀ k, k < searchLoop f fuel i j → f k = false) ∧
        (∀ k, searchLoop f fuel i j ≤ k → k < n → f k = true) := by
  intro fuel
  induction fuel with
  | zero =>
    intro i j hij hjn hf lo hi
    have : i = j := by omega
    subst this
    simp only [searchLoop]
    exact ⟨hjn, lo, hi⟩
  | succ fuel ih =>
    intro i j hij hjn hf lo hi
    unfold searchLoop
    by_cases hlt : i < j
    · simp only [hlt, if_true]
      have hh : (i + j) / 2 < n := by omega
      by_cases hfh : f ((i + j) / 2) = true
      · simp only [hfh, Bool.not_true, Bool.false_eq_true, if_false]
        apply ih i ((i + j) / 2) (by omega) (by omega) (by omega) lo
        intro k hk hkn
        exact mono _ _ hk hkn hfh
      · have hfh' : f ((i + j) / 2) = false := by simpa using hfh
        simp only [hfh', Bool.not_false, if_true]
        apply ih ((i + j) / 2 + 1) j (by omega) hjn (by omega) _ hi
        intro k hk
        cases hfk : f k with
        | false => rfl
        | true =>
          have := mono k ((i + j) / 2) (by omega) hh hfk
          rw [hfh'] at this; cases this
    · simp only [hlt, if_false]
      have : i = j := by omega
      subst this
      exact ⟨hjn, lo, hi⟩

theorem sortSearch_le (n : Nat) (f : Nat → Bool) : sortSearch n f ≤ n :=
  searchLoop_le f n 0 n (Nat.zero_le _)

theorem sortSearch_spec (f : Nat → Bool) (n : Nat)
    (mono : ∀ a b, a ≤ b → b < n → f a = true → f b = true) :
    sortSearch n f ≤ n ∧ (∀ k, k < sortSearch n f → f k = false) ∧
      (∀ k, sortSearch n f ≤ k → k < n → f k = true) :=
  searchLoop_spec f n mono n 0 n (Nat.zero_le _) (Nat.le_refl _) (by omega)
    (fun k h => absurd h (Nat.not_lt_zero _)) (fun k h1 h2 => absurd h2 (by omega))

/-! ### keys -/

theorem keyAt_zero (x : String) (xs : List String) : keyAt (x :: xs) 0 = x := by
  simp [keyAt]

theorem keyAt_succ (x : String) (xs : List String) (i : Nat) : keyAt (x :: xs) (i + 1) = keyAt xs i := by
  simp [keyAt]

theorem keyAt_eq_getElem (keys : List String) (i : Nat) (h : i < keys.length) : keyAt keys i = keys[i] := by
  simp [keyAt, List.getD_eq_getElem?_getD, h]

theorem keyAt_mem (keys : List String) (i : Nat) (h : i < keys.length) : keyAt keys i ∈ keys := by
  rw [keyAt_eq_getElem keys i h]; exact List.getElem_mem h

theorem getElem?_eq_keyAt (keys : List String) (i : Nat) (h : i < keys.length) : keys[i]? = some (keyAt keys i) := by
  rw [keyAt_eq_getElem keys i h]; simp [h]

theorem sorted_keyAt_lt {keys : List String} (hs : Sorted keys) {a b : Nat} (hab : a < b) (hb : b < keys.length) :
    keyAt keys a < keyAt keys b := by
  rw [keyAt_eq_getElem keys a (by omega), keyAt_eq_getElem keys b hb]
  exact (List.pairwise_iff_getElem.mp hs) a b (by omega) hb hab

theorem sorted_keyAt_le {keys : List String} (hs : Sorted keys) {a b : Nat} (hab : a ≤ b) (hb : b < keys.length) :
    keyAt keys a ≤ keyAt keys b := by
  by_cases h : a = b
  · subst h; exact Std.le_refl _
  · exact Std.le_of_lt (sorted_keyAt_lt hs (by omega) hb)

/-- A predicate that is false on the first `r` keys and true on the others keeps exactly `drop r`. -/
theorem filter_eq_drop (p : String → Bool) : ∀ (keys : List String) (r : Nat), r ≤ keys.length →
    (∀ i, i < r → p (keyAt keys i) = false) →
    (∀ i, r ≤ i → i < keys.length → p (keyAt keys i) = true) →
    keys.filter p = keys.drop r := by
  intro keys
  induction keys with
  | nil => intro r _ _ _; simp
  | cons x xs ih =>
    intro r hr lo hi
    cases r with
    | zero =>
      simp only [List.drop_zero]
      apply List.filter_eq_self.mpr
      intro a ha
      obtain ⟨i, hi', rfl⟩ := List.getElem_of_mem ha
      have := hi i (Nat.zero_le _) hi'
      rwa [keyAt_eq_getElem _ _ hi'] at this
    | succ r =>
      have hx : p x = false := by simpa [keyAt_zero] using lo 0 (by omega)
      simp only [List.filter_cons, hx, Bool.false_eq_true, if_false, List.drop_succ_cons]
      apply ih r (by simpa using hr)
      · intro i hi'
        simpa [keyAt_succ] using lo (i + 1) (by omega)
      · intro i h1 h2
        simpa [keyAt_succ] using hi (i + 1) (by omega) (by simpa using h2)

theorem empty_lt {s : String} (h : s ≠ "") : "" < s := by
  rw [String.lt_iff]
  have : s.toList ≠ [] := by
    intro h'; exact h (String.toList_eq_nil_iff.mp h')
  rw [String.toList_empty]
  cases hs : s.toList with
  | nil => exact absurd hs this
  | cons a as => exact List.nil_lt_cons a as

/-- Without an empty key, `after keys ""` is also the filter. -/
theorem after_eq_filter {keys : List String} (hne : "" ∉ keys) (k : String) :
    after keys k = keys.filter (fun x => decide (k < x)) := by
  unfold after
  by_cases hk : k = ""
  · subst hk
    simp only [if_true]
    symm
    apply List.filter_eq_self.mpr
    intro a ha
    have : a ≠ "" := fun h => hne (h ▸ ha)
    simpa using empty_lt this
  · simp [hk]

/-! ### nextIndex -/

theorem nextIndex_le (v : Variant) (keys : List String) (k : String) : nextIndex v keys k ≤ keys.length := by
  unfold nextIndex
  by_cases hk : k = ""
  · simp [hk]
  · simp only [hk, if_false]
    cases v with
    | gt => exact sortSearch_le _ _
    | ge =>
      simp only
      have := sortSearch_le keys.length (fun i => decide (k ≤ keyAt keys i))
      split
      · rename_i h; omega
      · exact this

/-- Both search variants land on the first key greater than `lastKey`. -/
theorem nextIndex_spec (v : Variant) {keys : List String} (hs : Sorted keys) (k : String) :
    keys.drop (nextIndex v keys k) = after keys k := by
  unfold nextIndex after
  by_cases hk : k = ""
  · simp [hk]
  · simp only [hk, if_false]
    symm
    cases v with
    | gt =>
      simp only
      have mono : ∀ a b, a ≤ b → b < keys.length →
          (fun i => decide (k < keyAt keys i)) a = true → (fun i => decide (k < keyAt keys i)) b = true := by
        intro a b hab hb ha
        simp only [decide_eq_true_eq] at *
        exact Std.lt_of_lt_of_le ha (sorted_keyAt_le hs hab hb)
      obtain ⟨h1, h2, h3⟩ := sortSearch_spec _ keys.length mono
      exact filter_eq_drop _ keys _ h1 h2 h3
    | ge =>
      simp only
      have mono : ∀ a b, a ≤ b → b < keys.length →
          (fun i => decide (k ≤ keyAt keys i)) a = true → (fun i => decide (k ≤ keyAt keys i)) b = true := by
        intro a b hab hb ha
        simp only [decide_eq_true_eq] at *
        exact Std.le_trans ha (sorted_keyAt_le hs hab hb)
      obtain ⟨h1, h2, h3⟩ := sortSearch_spec _ keys.length mono
      generalize sortSearch keys.length (fun i => decide (k ≤ keyAt keys i)) = r0 at h1 h2 h3
      simp only [decide_eq_false_iff_not, decide_eq_true_eq] at h2 h3
      split
      · rename_i h
        obtain ⟨hr, heq⟩ := h
        apply filter_eq_drop _ keys _ (by omega)
        · intro i hi
          simp only [decide_eq_false_iff_not]
          by_cases hi0 : i < r0
          · exact fun hlt => h2 i hi0 (Std.le_of_lt hlt)
          · have : i = r0 := by omega
            subst this
            rw [heq]; exact Std.lt_irrefl
        · intro i h1' h2'
          simp only [decide_eq_true_eq]
          rw [← heq]
          exact sorted_keyAt_lt hs (by omega) h2'
      · rename_i h
        apply filter_eq_drop _ keys _ h1
        · intro i hi
          simp only [decide_eq_false_iff_not]
          exact fun hlt => h2 i hi (Std.le_of_lt hlt)
        · intro i h1' h2'
          simp only [decide_eq_true_eq]
          by_cases hi0 : i = r0
          · subst hi0
            have hne : k ≠ keyAt keys i := fun e => h ⟨h2', e.symm⟩
            exact Std.lt_of_le_of_ne (h3 i (Nat.le_refl _) h2') hne
          · exact Std.lt_of_le_of_lt (h3 r0 (Nat.le_refl _) (by omega)) (sorted_keyAt_lt hs (by omega) h2')

/-- The key that ends a full page is followed by exactly the rest of the listing. -/
theorem after_keyAt {keys : List String} (hs : Sorted keys) (hne : "" ∉ keys) (m : Nat)
    (hm : m < keys.length) : after keys (keyAt keys m) = keys.drop (m + 1) := by
  rw [after_eq_filter hne]
  apply filter_eq_drop _ keys _ (by omega)
  · intro i hi
    simp only [decide_eq_false_iff_not]
    exact Std.not_lt.mpr (sorted_keyAt_le hs (by omega) hm)
  · intro i h1 h2
    simp only [decide_eq_true_eq]
    exact sorted_keyAt_lt hs (by omega) h2

theorem drop_inj_of_le {α} (l : List α) {a b : Nat} (ha : a ≤ l.length) (hb : b ≤ l.length)
    (h : l.drop a = l.drop b) : a = b := by
  have := congrArg List.length h
  simp only [List.length_drop] at this
  omega

theorem nextIndex_keyAt (v : Variant) {keys : List String} (hs : Sorted keys) (hne : "" ∉ keys) (m : Nat)
    (hm : m < keys.length) : nextIndex v keys (keyAt keys m) = m + 1 := by
  apply drop_inj_of_le keys (nextIndex_le _ _ _) (by omega)
  rw [nextIndex_spec v hs, after_keyAt hs hne m hm]

end ScVerif.C15
