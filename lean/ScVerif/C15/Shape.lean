import ScVerif.C15.Chain
import ScVerif.C15.WasteLemmas
/-! Exact shape of a chain asked with one page size throughout (helper lemmas for `C15_page_shape`). -/
namespace ScVerif.C15

theorem div_step {m c : Nat} (hc : 0 < c) (h : c ≤ m) : m / c = (m - c) / c + 1 := by
  rw [Nat.div_eq m c]; simp [hc, h]

/-- With the same page size `sz` on every page (`c = capPageSize sz`): from a token at index `r` the chain
has exactly `(n - r) / c + 1` pages, page `j` is `keys[r + j·c : r + (j+1)·c]` (clipped), only the last page
has no token, and every page reports `total_size = n`. -/
theorem chain_shape (v : Variant) {keys : List String} (hs : Sorted keys) (hne : "" ∉ keys)
    (sz : Int) (hsz : 0 ≤ sz) :
    ∀ fuel i tok, tok ≠ .bad → keys.length - nextIndex v keys (lastKeyOf tok) < fuel →
      ∃ pages, chain v keys (fun _ => sz) fuel i tok = some pages ∧
        pages.length = (keys.length - nextIndex v keys (lastKeyOf tok)) / (capPageSize sz).toNat + 1 ∧
        ∀ j p, pages[j]? = some p →
          p.items = (keys.drop (nextIndex v keys (lastKeyOf tok) + j * (capPageSize sz).toNat)).take (capPageSize sz).toNat ∧
          (p.next = none ↔ j + 1 = pages.length) ∧ p.total = keys.length := by
  obtain ⟨hc1, hc2, -, -⟩ := capPageSize_bounds sz hsz
  generalize hcdef : (capPageSize sz).toNat = c
  have hc : 0 < c := by omega
  intro fuel
  induction fuel with
  | zero => intro i tok _ h; omega
  | succ fuel ih =>
    intro i tok htok hfuel
    have hr := nextIndex_le v keys (lastKeyOf tok)
    unfold chain
    rw [listPage_ok v keys tok sz htok hsz, hcdef]
    generalize hrdef : nextIndex v keys (lastKeyOf tok) = r at hr hfuel
    by_cases hle : r + c ≤ keys.length
    · simp only [hle, if_true]
      have hm : r + c - 1 < keys.length := by omega
      have hni : nextIndex v keys (lastKeyOf (.key (keyAt keys (r + c - 1)))) = r + c := by
        have := nextIndex_keyAt v hs hne (r + c - 1) hm
        simp only [lastKeyOf]; omega
      obtain ⟨pages, hch, hlen, hsh⟩ := ih (i + 1) (.key (keyAt keys (r + c - 1))) (by simp) (by rw [hni]; omega)
      rw [hni] at hlen hsh
      have hdiv : (keys.length - r) / c = (keys.length - (r + c)) / c + 1 := by
        rw [div_step hc (by omega : c ≤ keys.length - r)]
        congr 2; omega
      generalize (keys.length - (r + c)) / c = q at hlen hdiv
      refine ⟨_ :: pages, by rw [hch]; rfl, by simp only [List.length_cons, hlen, hdiv], ?_⟩
      intro j p hp
      cases j with
      | zero =>
        simp only [List.getElem?_cons_zero, Option.some.injEq] at hp
        subst hp
        refine ⟨by simp, ?_, rfl⟩
        simp only [List.length_cons, hlen]
        constructor
        · intro h; cases h
        · intro h; omega
      | succ j =>
        simp only [List.getElem?_cons_succ] at hp
        obtain ⟨h1, h2, h3⟩ := hsh j p hp
        refine ⟨?_, ?_, h3⟩
        · rw [h1]; congr 2; rw [Nat.succ_mul]; omega
        · simp only [List.length_cons]; rw [h2]; omega
    · simp only [hle, if_false]
      have hdiv : (keys.length - r) / c = 0 := Nat.div_eq_of_lt (by omega)
      refine ⟨_, rfl, by simp [hdiv], ?_⟩
      intro j p hp
      cases j with
      | zero =>
        simp only [List.getElem?_cons_zero, Option.some.injEq] at hp
        subst hp
        exact ⟨by simp, by simp, rfl⟩
      | succ j => simp at hp

/-- waste, one page size throughout (`c = wasteCount sz`): from index `start` the chain has exactly
`(start - 1) / c + 1` pages (no trailing empty page: the token is dropped when the page reaches record 0),
page `j` holds records `start - j·c - 1` downwards, `c` of them (fewer on the last page). -/
theorem wasteChain_shape (n : Nat) (sz : Int) (hsz : 0 ≤ sz) :
    ∀ fuel i (start : Nat), start ≤ n → start < fuel →
      ∃ pages, wasteChain n (fun _ => sz) fuel i (.idx start) = some pages ∧
        pages.length = (start - 1) / (wasteCount sz).toNat + 1 ∧
        ∀ j p, pages[j]? = some p →
          p.items = down (start - j * (wasteCount sz).toNat) (wasteCount sz).toNat ∧
          (p.next = none ↔ j + 1 = pages.length) ∧ p.total = n := by
  obtain ⟨hc1, -, -, -⟩ := wasteCount_bounds sz hsz
  generalize hcdef : (wasteCount sz).toNat = c
  have hc : 0 < c := by omega
  intro fuel
  induction fuel with
  | zero => intro i start _ h; omega
  | succ fuel ih =>
    intro i start hstart hfuel
    unfold wasteChain
    rw [listWaste_idx_ok n start sz hstart hsz, hcdef]
    by_cases hlt : c < start
    · simp only [hlt, if_true]
      have hcast : (start : Int) - (c : Int) = ((start - c : Nat) : Int) := by omega
      rw [hcast]
      obtain ⟨pages, hch, hlen, hsh⟩ := ih (i + 1) (start - c) (by omega) (by omega)
      have hdiv : (start - 1) / c = (start - c - 1) / c + 1 := by
        rw [div_step hc (by omega : c ≤ start - 1)]
        congr 2; omega
      generalize (start - c - 1) / c = q at hlen hdiv
      refine ⟨_ :: pages, by rw [hch]; rfl, by simp only [List.length_cons, hlen, hdiv], ?_⟩
      intro j p hp
      cases j with
      | zero =>
        simp only [List.getElem?_cons_zero, Option.some.injEq] at hp
        subst hp
        refine ⟨by simp, ?_, rfl⟩
        simp only [List.length_cons, hlen]
        constructor
        · intro h; cases h
        · intro h; omega
      | succ j =>
        simp only [List.getElem?_cons_succ] at hp
        obtain ⟨h1, h2, h3⟩ := hsh j p hp
        refine ⟨?_, ?_, h3⟩
        · rw [h1]; congr 1; rw [Nat.succ_mul]; omega
        · simp only [List.length_cons]; rw [h2]; omega
    · simp only [hlt, if_false]
      have hdiv : (start - 1) / c = 0 := Nat.div_eq_of_lt (by omega)
      refine ⟨_, rfl, by simp [hdiv], ?_⟩
      intro j p hp
      cases j with
      | zero =>
        simp only [List.getElem?_cons_zero, Option.some.injEq] at hp
        subst hp
        exact ⟨by simp, by simp, rfl⟩
      | succ j => simp at hp

end ScVerif.C15
