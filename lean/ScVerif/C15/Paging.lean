/-
C15 — executable model of the paged List RPCs of /repo (after the two `fix:` commits f9325fa, c118094).

Follows `pkg/trait/{electricpb,hailpb,publicationpb,vendingpb}/model_server.go` (variant `gt`),
`pkg/trait/parentpb/model_server.go` (variant `ge`), the five identical `pages.go`, and
`pkg/trait/wastepb/{model_server.go,model.go}` (index tokens).

Abstractions (see props/C15.json):
* an item is represented by its key (`Id` / `Name` / `Consumable`); the list handed to the paging code
  is the collection's listing (sorted by key, no duplicates — hypothesis `Sorted` of the theorems,
  checked on the real models by the harness);
* token decoding (`base64` + `proto.Unmarshal`) is "either it fails (InvalidArgument) or it yields an
  arbitrary last key": `Tok.bad | Tok.empty | Tok.key k`, so garbage that happens to decode is covered
  by the `∀ k`; encoding then decoding a key gives that key back (checked by the harness);
* Go's index / slice bound checks are explicit: an out-of-range access is the outcome `Out.panic`.
-/
namespace ScVerif.C15

inductive Code where
  | invalidArgument
  | unknown
  deriving DecidableEq, Repr

def Code.name : Code → String
  | .invalidArgument => "InvalidArgument"
  | .unknown => "Unknown"

/-- Outcome of a call: a response, a gRPC error status, or a Go run-time panic. -/
inductive Out (α : Type) where
  | ok (a : α)
  | err (c : Code)
  | panic
  deriving Repr

instance {α} [DecidableEq α] : DecidableEq (Out α) := by
  intro a b
  cases a <;> cases b <;> first
    | (rename_i x y; exact if h : x = y then isTrue (by rw [h]) else isFalse (by intro e; cases e; exact h rfl))
    | exact isTrue rfl
    | exact isFalse (by intro e; cases e)

/-! ### pages.go -/

def defaultPageSize : Int := 50
def maxPageSize : Int := 1000

/-- `capPageSize` of pages.go. -/
def capPageSize (pageSize : Int) : Int :=
  if pageSize = 0 then defaultPageSize
  else if pageSize > maxPageSize then maxPageSize
  else pageSize

/-! ### sort.Search -/

/-- The loop of Go's `sort.Search`: `for i < j { h := (i+j)/2; if !f(h) { i = h+1 } else { j = h } }`.
`fuel` bounds the iterations (`j - i` suffices; every iteration shrinks the interval). -/
def searchLoop (f : Nat → Bool) : Nat → Nat → Nat → Nat
  | 0, i, _ => i
  | fuel + 1, i, j =>
    if i < j then
      let h := (i + j) / 2
      if !f h then searchLoop f fuel (h + 1) j else searchLoop f fuel i h
    else i

/-- `sort.Search(n, f)`. -/
def sortSearch (n : Nat) (f : Nat → Bool) : Nat := searchLoop f n 0 n

/-! ### Go slice operations with their bound checks -/

/-- `xs[i]` -/
def index {α} (xs : List α) (i : Int) : Out α :=
  if 0 ≤ i then
    match xs[i.toNat]? with
    | some x => .ok x
    | none => .panic
  else .panic

/-- `xs[lo:hi]` (for a slice whose capacity equals its length) -/
def slice {α} (xs : List α) (lo hi : Int) : Out (List α) :=
  if 0 ≤ lo ∧ lo ≤ hi ∧ hi ≤ xs.length then .ok ((xs.drop lo.toNat).take (hi.toNat - lo.toNat))
  else .panic

/-! ### key-token paging (ListModes, ListHails, ListPublications, ListConsumables, ListInventory; ListChildren) -/

/-- A decoded page token. -/
inductive Tok where
  | empty                 -- page_token == ""
  | bad                   -- base64 or proto decoding fails
  | key (lastKey : String) -- decodes; `GetLastResourceName()` is `lastKey` (possibly "")
  deriving DecidableEq, Repr

inductive Variant where
  | gt  -- sort.Search(keys[i] > lastKey)
  | ge  -- parent: sort.Search(keys[i] >= lastKey), then skip an equal key
  deriving DecidableEq, Repr

structure Page where
  items : List String
  /-- `none`: empty next_page_token; `some k`: a token whose last_resource_name is `k`. -/
  next : Option String
  total : Nat
  deriving DecidableEq, Repr

def keyAt (keys : List String) (i : Nat) : String := keys.getD i ""

/-- `nextIndex` as computed by the List functions. -/
def nextIndex (v : Variant) (keys : List String) (lastKey : String) : Nat :=
  if lastKey = "" then 0
  else match v with
    | .gt => sortSearch keys.length (fun i => decide (lastKey < keyAt keys i))
    | .ge =>
      let n := sortSearch keys.length (fun i => decide (lastKey ≤ keyAt keys i))
      if n < keys.length ∧ keyAt keys n = lastKey then n + 1 else n

/-- One List call on the listing `keys` (already sorted by the collection / by `sort.Slice`). -/
def listPage (v : Variant) (keys : List String) (tok : Tok) (size : Int) : Out Page :=
  match tok with
  | .bad => .err .invalidArgument                     -- decodePageToken fails
  | tok =>
    let lastKey := match tok with
      | .key k => k
      | _ => ""
    if size < 0 then .err .invalidArgument             -- the guard added by f9325fa
    else
      let pageSize := capPageSize size
      let ni : Int := nextIndex v keys lastKey
      let upperBound := ni + pageSize
      if upperBound > keys.length then
        match slice keys ni keys.length with             -- upperBound = len; pageToken = nil
        | .ok items => .ok ⟨items, none, keys.length⟩
        | .err c => .err c
        | .panic => .panic
      else
        match index keys (upperBound - 1) with           -- sorted[upperBound-1].Id
        | .ok k =>
          match slice keys ni upperBound with
          | .ok items => .ok ⟨items, some k, keys.length⟩
          | .err c => .err c
          | .panic => .panic
        | .err c => .err c
        | .panic => .panic

/-- A List call with a read mask (after the read-mask fix): paging — search, slice and the next token —
works on the unmasked listing; the mask only decides what the returned items show.  `keyVisible = false`:
the mask does not mention the key field, the items come back with an empty key. -/
def listPageMasked (v : Variant) (keys : List String) (tok : Tok) (size : Int) (keyVisible : Bool) : Out Page :=
  match listPage v keys tok size with
  | .ok p => .ok { p with items := if keyVisible then p.items else p.items.map (fun _ => "") }
  | .err c => .err c
  | .panic => .panic

/-- What a page shows under the read mask. -/
def Page.display (keyVisible : Bool) (p : Page) : Page :=
  { p with items := if keyVisible then p.items else p.items.map (fun _ => "") }

/-- Following next_page_token with a read mask. -/
def chainMasked (v : Variant) (keys : List String) (size : Nat → Int) (keyVisible : Bool) :
    Nat → Nat → Tok → Option (List Page)
  | 0, _, _ => none
  | fuel + 1, i, tok =>
    match listPageMasked v keys tok (size i) keyVisible with
    | .ok p =>
      match p.next with
      | none => some [p]
      | some k => (chainMasked v keys size keyVisible fuel (i + 1) (.key k)).map (p :: ·)
    | _ => none

/-- Before 2829c35 the id-keyed listers fetched the listing THROUGH the read mask and paged over what
came back: with the key hidden every key the paging code saw was "". -/
def listPageMaskedUnfixed (v : Variant) (keys : List String) (tok : Tok) (size : Int) (keyVisible : Bool) : Out Page :=
  listPage v (if keyVisible then keys else keys.map (fun _ => "")) tok size

/-- The same call on the code as it was before f9325fa (no negative-size guard); kept to state what
the repaired defect was. -/
def listPageUnfixed (v : Variant) (keys : List String) (tok : Tok) (size : Int) : Out Page :=
  match tok with
  | .bad => .err .invalidArgument
  | tok =>
    let lastKey := match tok with
      | .key k => k
      | _ => ""
    let pageSize := capPageSize size
    let ni : Int := nextIndex v keys lastKey
    let upperBound := ni + pageSize
    if upperBound > keys.length then
      match slice keys ni keys.length with
      | .ok items => .ok ⟨items, none, keys.length⟩
      | .err c => .err c
      | .panic => .panic
    else
      match index keys (upperBound - 1) with
      | .ok k =>
        match slice keys ni upperBound with
        | .ok items => .ok ⟨items, some k, keys.length⟩
        | .err c => .err c
        | .panic => .panic
      | .err c => .err c
      | .panic => .panic

/-- Following next_page_token: page number `i` asks for `size i` items. `none` = no empty token
within `fuel` pages, or a call failed. -/
def chain (v : Variant) (keys : List String) (size : Nat → Int) : Nat → Nat → Tok → Option (List Page)
  | 0, _, _ => none
  | fuel + 1, i, tok =>
    match listPage v keys tok (size i) with
    | .ok p =>
      match p.next with
      | none => some [p]
      | some k => (chain v keys size fuel (i + 1) (.key k)).map (p :: ·)
    | _ => none

/-! ### waste: index tokens counting down from the newest record -/

/-- A decoded waste token (`strconv.Atoi`). -/
inductive WTok where
  | empty
  | bad               -- not a machine integer
  | idx (i : Int)
  deriving DecidableEq, Repr

structure WPage where
  items : List Nat      -- indices into allWasteRecords
  next : Option Int
  total : Nat
  deriving DecidableEq, Repr

/-- `Model.ListWasteRecords(start, count)`: `for i := start-1; i >= 0; i-- { append(all[i]); if len >= count { break } }`
with `k = i+1` iterations left. -/
def wasteLoop (n : Nat) (count : Int) : Nat → List Nat → Out (List Nat)
  | 0, acc => .ok acc
  | k + 1, acc =>
    if k < n then
      let acc' := acc ++ [k]
      if count ≤ acc'.length then .ok acc' else wasteLoop n count k acc'
    else .panic                                        -- allWasteRecords[k] out of range

def wasteRecords (n : Nat) (start count : Int) : Out (List Nat) := wasteLoop n count start.toNat []

def wasteCount (size : Int) : Int := if size = 0 then 50 else if size > 1000 then 1000 else size

def wastePageOf (n : Nat) (start count : Int) : Out WPage :=
  match wasteRecords n start count with
  | .ok recs =>
    let next : Option Int :=
      if count = recs.length then (if start - count > 0 then some (start - count) else none) else none
    .ok ⟨recs, next, n⟩
  | .err c => .err c
  | .panic => .panic

/-- `ModelServer.ListWasteRecords` on a model holding `n` records (after c118094 and f9325fa). -/
def listWaste (n : Nat) (tok : WTok) (size : Int) : Out WPage :=
  match tok with
  | .bad => .err .unknown                              -- the strconv error is returned as is
  | .idx i =>
    if i < 0 ∨ i > n then .err .invalidArgument         -- c118094
    else if size < 0 then .err .invalidArgument         -- f9325fa
    else wastePageOf n i (wasteCount size)
  | .empty =>
    if size < 0 then .err .invalidArgument
    else wastePageOf n n (wasteCount size)

/-- What a waste page shows under a read mask: `none` = the record comes back without its id. -/
structure WShown where
  items : List (Option Nat)
  next : Option Int
  total : Nat
  deriving DecidableEq, Repr

def WPage.display (idVisible : Bool) (p : WPage) : WShown :=
  ⟨p.items.map (fun i => if idVisible then some i else none), p.next, p.total⟩

/-- `ListWasteRecords` with a read mask (honoured since d0c1476): index, count, token and total are computed
on the stored records; the mask is applied to copies of the returned page only. -/
def listWasteMasked (n : Nat) (tok : WTok) (size : Int) (idVisible : Bool) : Out WShown :=
  match listWaste n tok size with
  | .ok p => .ok (p.display idVisible)
  | .err c => .err c
  | .panic => .panic

/-- The RPC as it was before the two fixes. -/
def listWasteUnfixed (n : Nat) (tok : WTok) (size : Int) : Out WPage :=
  match tok with
  | .bad => .err .unknown
  | .idx i => wastePageOf n i (wasteCount size)
  | .empty => wastePageOf n n (wasteCount size)

def wasteChain (n : Nat) (size : Nat → Int) : Nat → Nat → WTok → Option (List WPage)
  | 0, _, _ => none
  | fuel + 1, i, tok =>
    match listWaste n tok (size i) with
    | .ok p =>
      match p.next with
      | none => some [p]
      | some k => (wasteChain n size fuel (i + 1) (.idx k)).map (p :: ·)
    | _ => none

end ScVerif.C15
