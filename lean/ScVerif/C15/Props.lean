import ScVerif.C15.Bounds
/-!
# C15 — Paged List RPCs enumerate every item exactly once

Property (fixed text): for any collection contents (held fixed while paging) and any page sizes,
following next_page_token from the first page until it is empty returns every item exactly once in
the listing's order, each page no larger than requested (default 50, capped at 1000), with total_size
equal to the number of items.  A malformed page token or a negative page size is answered with an
error status, never a panic or an endless token chain.

The theorems are about `listPage` / `listWaste` of `Paging.lean` (the model of the seven RPCs, tied to
/repo by the harness on every run).  Quantifiers: ALL key lists, ALL page-size functions (the size may
change from page to page), ALL tokens.  Hypotheses, each explicit and with a non-vacuity `example`:
`Sorted keys` (the listing is strictly ascending: `Collection.List` / parent's `sort.Slice`) and
`"" ∉ keys` (no item has an empty key: every creation API rejects or replaces an empty id).
-/
namespace ScVerif.C15

/-! ## Key-token RPCs: ListModes, ListHails, ListChildren, ListPublications, ListConsumables, ListInventory -/

/-- **C15_enumerates.** From the empty token, whatever (non-negative) size each page asks for, the chain
reaches the empty token within `|keys|+1` pages; the pages concatenate to the listing (every item
exactly once, in order); page `j` has at most `min (size j or 50) 1000` items and reports
`total_size = |keys|`. -/
theorem C15_enumerates (v : Variant) (keys : List String) (hs : Sorted keys) (hne : "" ∉ keys)
    (size : Nat → Int) (hsz : ∀ i, 0 ≤ size i) :
    ∃ pages, chain v keys size (keys.length + 1) 0 .empty = some pages ∧
      (pages.map (·.items)).flatten = keys ∧
      pages.length ≤ keys.length + 1 ∧
      ∀ j p, pages[j]? = some p → (p.items.length : Int) ≤ allowed (size j) ∧ p.total = keys.length := by
  have h0 : nextIndex v keys (lastKeyOf .empty) = 0 := by simp [nextIndex, lastKeyOf]
  obtain ⟨pages, h1, h2, h3, h4⟩ := chain_from v hs hne size hsz (keys.length + 1) 0 .empty (by simp) (by omega)
  rw [h0] at h2 h3
  refine ⟨pages, h1, by simpa using h2, by omega, ?_⟩
  intro j p hp
  simpa using PagesOk_get hsz pages 0 h4 j p hp

/-- **C15_any_token (no panic).** No key list (sorted or not), token or page size makes a List call panic. -/
theorem C15_any_token_no_panic (v : Variant) (keys : List String) (tok : Tok) (size : Int) :
    listPage v keys tok size ≠ .panic := by
  by_cases hb : tok = .bad
  · subst hb; simp [listPage]
  · by_cases hn : size < 0
    · cases tok with
      | bad => exact absurd rfl hb
      | empty => simp [listPage, hn]
      | key k => simp [listPage, hn]
    · rw [listPage_ok v keys tok size hb (by omega)]; simp

/-- **C15_any_token (chain).** A token that decodes to ANY last key `k` (present, deleted, never
present, garbage that happened to decode, or "") starts a chain that reaches the empty token within
`|rest|+1 ≤ |keys|+1` pages and returns exactly the keys after `k`, each once, in order. -/
theorem C15_any_token (v : Variant) (keys : List String) (hs : Sorted keys) (hne : "" ∉ keys)
    (size : Nat → Int) (hsz : ∀ i, 0 ≤ size i) (k : String) :
    ∃ pages, chain v keys size (keys.length + 1) 0 (.key k) = some pages ∧
      (pages.map (·.items)).flatten = after keys k ∧
      pages.length ≤ (after keys k).length + 1 ∧ pages.length ≤ keys.length + 1 ∧
      ∀ j p, pages[j]? = some p → (p.items.length : Int) ≤ allowed (size j) ∧ p.total = keys.length := by
  have hle := nextIndex_le v keys k
  obtain ⟨pages, h1, h2, h3, h4⟩ := chain_from v hs hne size hsz (keys.length + 1) 0 (.key k) (by simp) (by omega)
  simp only [lastKeyOf] at h2 h3
  have hlen : (after keys k).length = keys.length - nextIndex v keys k := by
    rw [← nextIndex_spec v hs k, List.length_drop]
  refine ⟨pages, h1, by rw [h2, nextIndex_spec v hs k], by omega, by omega, ?_⟩
  intro j p hp
  simpa using PagesOk_get hsz pages 0 h4 j p hp

/-- **C15_bad_token.** A token that does not decode is answered with InvalidArgument. -/
theorem C15_bad_token (v : Variant) (keys : List String) (size : Int) :
    listPage v keys .bad size = .err .invalidArgument := by
  simp [listPage]

/-- **C15_negative_size.** A negative page size is answered with an error status (InvalidArgument), for
every key list and token. -/
theorem C15_negative_size (v : Variant) (keys : List String) (tok : Tok) (size : Int) (h : size < 0) :
    listPage v keys tok size = .err .invalidArgument := by
  cases tok <;> simp [listPage, h]

/-- **C15_read_mask.** A read mask does not disturb paging (after 2829c35): with ANY read mask — whether or
not it shows the key field — every call returns the same next token, total and number of items as
without one and never panics; so from the empty token the chain reaches the empty token within
`|keys|+1` pages, the pages hold `|keys|` items in all, respect the size bound, and show the listing itself
when the key is visible. -/
theorem C15_read_mask (v : Variant) (keys : List String) (hs : Sorted keys) (hne : "" ∉ keys)
    (size : Nat → Int) (hsz : ∀ i, 0 ≤ size i) (keyVisible : Bool) :
    (∀ fuel i tok, chainMasked v keys size keyVisible fuel i tok =
      (chain v keys size fuel i tok).map (·.map (Page.display keyVisible))) ∧
    (∀ tok sz, listPageMasked v keys tok sz keyVisible ≠ .panic) ∧
    ∃ pages, chainMasked v keys size keyVisible (keys.length + 1) 0 .empty = some pages ∧
      pages.length ≤ keys.length + 1 ∧
      ((pages.map (·.items)).flatten).length = keys.length ∧
      (keyVisible = true → (pages.map (·.items)).flatten = keys) ∧
      ∀ j p, pages[j]? = some p → (p.items.length : Int) ≤ allowed (size j) ∧ p.total = keys.length := by
  refine ⟨chainMasked_eq v keys size keyVisible, ?_, ?_⟩
  · intro tok sz
    rw [listPageMasked_eq]
    have := C15_any_token_no_panic v keys tok sz
    cases h : listPage v keys tok sz <;> simp_all
  · obtain ⟨pages, h1, h2, h3, h4⟩ := C15_enumerates v keys hs hne size hsz
    refine ⟨pages.map (Page.display keyVisible), by rw [chainMasked_eq, h1]; rfl, by simpa using h3, ?_, ?_, ?_⟩
    · have hl : ∀ (ps : List Page), ((ps.map (Page.display keyVisible)).map (·.items)).flatten.length
          = ((ps.map (·.items)).flatten).length := by
        intro ps
        induction ps with
        | nil => rfl
        | cons q qs ih =>
          simp only [List.map_cons, List.flatten_cons, List.length_append, ih]
          congr 1
          unfold Page.display
          cases keyVisible <;> simp
      rw [hl, h2]
    · intro hv
      subst hv
      have hid : ∀ ps : List Page, ps.map (Page.display true) = ps := by
        intro ps
        induction ps with
        | nil => rfl
        | cons q qs ih => simp [Page.display] at ih ⊢; exact ih
      rw [hid, h2]
    · intro j p hp
      simp only [List.getElem?_map, Option.map_eq_some_iff] at hp
      obtain ⟨q, hq, rfl⟩ := hp
      obtain ⟨a, b⟩ := h4 j q hq
      refine ⟨?_, b⟩
      unfold Page.display
      cases keyVisible <;> simpa using a

/-! ## waste: ListWasteRecords (index tokens) -/

/-- **C15_waste (enumerates).** Over `n` records the chain from the empty token reaches the empty token
within `n+1` pages and returns record indices `n-1, …, 0` (newest first), each once. -/
theorem C15_waste_enumerates (n : Nat) (size : Nat → Int) (hsz : ∀ i, 0 ≤ size i) :
    ∃ pages, wasteChain n size (n + 1) 0 .empty = some pages ∧
      (pages.map (·.items)).flatten = (List.range n).reverse ∧
      pages.length ≤ n + 1 ∧
      ∀ j p, pages[j]? = some p → (p.items.length : Int) ≤ allowed (size j) ∧ p.total = n := by
  obtain ⟨pages, h1, h2, h3, h4⟩ := wasteChain_from n size hsz (n + 1) 0 n (Nat.le_refl _) (by omega)
  refine ⟨pages, by rw [wasteChain_empty, h1], by rw [h2, down_self], h3, ?_⟩
  intro j p hp
  simpa using WPagesOk_get hsz pages 0 h4 j p hp

/-- **C15_waste (no panic).** No record count, token or page size makes ListWasteRecords panic. -/
theorem C15_waste_no_panic (n : Nat) (tok : WTok) (size : Int) : listWaste n tok size ≠ .panic := by
  have idx : ∀ i : Int, listWaste n (.idx i) size ≠ .panic := by
    intro i
    by_cases hr : i < 0 ∨ i > n
    · simp [listWaste, hr]
    · by_cases hn : size < 0
      · simp [listWaste, hr, hn]
      · obtain ⟨s, rfl⟩ : ∃ s : Nat, i = (s : Int) := ⟨i.toNat, by omega⟩
        rw [listWaste_idx_ok n s size (by omega) (by omega)]; simp
  cases tok with
  | bad => simp [listWaste]
  | empty => rw [listWaste_empty]; exact idx n
  | idx i => exact idx i

/-- **C15_waste (any token).** A token that parses to ANY integer: outside `0..n` it is rejected with
InvalidArgument; inside, the chain terminates within `start+1` pages and returns `start-1, …, 0`. -/
theorem C15_waste_any_token (n : Nat) (size : Nat → Int) (hsz : ∀ i, 0 ≤ size i) (start : Int) :
    ((start < 0 ∨ start > n) → ∀ s, listWaste n (.idx start) s = .err .invalidArgument) ∧
    (0 ≤ start → start ≤ n →
      ∃ pages, wasteChain n size (n + 1) 0 (.idx start) = some pages ∧
        (pages.map (·.items)).flatten = (List.range start.toNat).reverse ∧
        pages.length ≤ start.toNat + 1 ∧
        ∀ j p, pages[j]? = some p → (p.items.length : Int) ≤ allowed (size j) ∧ p.total = n) := by
  constructor
  · intro h s; simp [listWaste, h]
  · intro h0 hn
    obtain ⟨s, rfl⟩ : ∃ s : Nat, start = (s : Int) := ⟨start.toNat, by omega⟩
    obtain ⟨pages, h1, h2, h3, h4⟩ := wasteChain_from n size hsz (n + 1) 0 s (by omega) (by omega)
    refine ⟨pages, h1, by rw [h2, down_self]; simp, by simpa using h3, ?_⟩
    intro j p hp
    simpa using WPagesOk_get hsz pages 0 h4 j p hp

/-- **C15_waste (bad token / negative size).** A token that is not an integer and a negative page size
are answered with an error status. -/
theorem C15_waste_errors (n : Nat) (tok : WTok) (size : Int) :
    listWaste n .bad size = .err .unknown ∧ (size < 0 → ∃ c, listWaste n tok size = .err c) := by
  refine ⟨by simp [listWaste], ?_⟩
  intro h
  cases tok with
  | bad => exact ⟨.unknown, by simp [listWaste]⟩
  | empty => exact ⟨.invalidArgument, by simp [listWaste, h]⟩
  | idx i =>
    by_cases hr : i < 0 ∨ i > n
    · exact ⟨.invalidArgument, by simp [listWaste, hr]⟩
    · exact ⟨.invalidArgument, by simp [listWaste, hr, h]⟩

/-! ## Non-vacuity and the repaired defects -/

/-- The hypotheses are satisfiable by a reachable listing (ids that are prefixes of each other). -/
example : Sorted ["a", "a/", "ab", "b"] ∧ "" ∉ ["a", "a/", "ab", "b"] := by
  refine ⟨?_, by decide⟩
  simp [Sorted]

/-- The model computes what the theorem says on that listing (page size 3 then 1). -/
example : (chain .gt ["a", "a/", "ab", "b"] (fun i => if i = 0 then 3 else 1) 5 0 .empty).map (·.map (·.items))
    = some [["a", "a/", "ab"], ["b"], []] := by decide

/-- The hypothesis `"" ∉ keys` is needed: with an item whose key is empty, a one-item first page mints a
token whose last key is "" and the listing restarts for ever (no creation API can produce such an item;
the harness monitors that no listed key is empty). -/
example : listPage .gt ["", "a"] .empty 1 = .ok ⟨[""], some "", 2⟩ ∧
    listPage .gt ["", "a"] (.key "") 1 = .ok ⟨[""], some "", 2⟩ ∧
    chain .gt ["", "a"] (fun _ => 1) 10 0 .empty = none := by decide

/-- Before 2829c35 a read mask that hides the key made the first page repeat for ever (the token was
minted from the masked item: empty key), and a later token returned nothing. -/
example : listPageMaskedUnfixed .gt ["a", "b"] .empty 1 false = .ok ⟨[""], some "", 2⟩ ∧
    listPageMaskedUnfixed .gt ["a", "b"] (.key "") 1 false = .ok ⟨[""], some "", 2⟩ ∧
    listPageMaskedUnfixed .gt ["a", "b"] (.key "a") 1 false = .ok ⟨[], none, 2⟩ ∧
    listPageMasked .gt ["a", "b"] .empty 1 false = .ok ⟨[""], some "a", 2⟩ := by decide

/-- Before f9325fa a negative page size panicked (index out of range [-2]). -/
example : listPageUnfixed .gt ["a"] .empty (-1) = .panic := by decide
example : listPageUnfixed .ge [] (.key "x") (-5) = .panic := by decide
/-- Before c118094/f9325fa: a waste token above the record count panicked; a negative size returned one record. -/
example : listWasteUnfixed 3 (.idx 4) 0 = .panic := by decide
example : listWasteUnfixed 3 .empty (-2) = .ok ⟨[2], none, 3⟩ := by decide

end ScVerif.C15
