import ScVerif.C15.Bounds
import ScVerif.C15.Store
import ScVerif.C15.Shape
import ScVerif.C15.Changing
import ScVerif.C15.Records
import ScVerif.C15.OwnToken
import ScVerif.C15.Icpt
import ScVerif.C15.Inflight
import ScVerif.C15.Hooks
/-!
# C15 — Paged List RPCs enumerate every item exactly once

Property (fixed text): for any collection contents (held fixed while paging) and any page sizes,
following next_page_token from the first page until it is empty returns every item exactly once in
the listing's order, each page no larger than requested (default 50, capped at 1000), with total_size
equal to the number of items.  A malformed page token or a negative page size is answered with an
error status, never a panic or an endless token chain.

The theorems are about `listPage` / `listWaste` of `Paging.lean` (the model of the seven RPCs, tied to
/repo by the harness on every run).  Quantifiers: ALL key lists, ALL page-size functions (the size may
change from page to page), ALL tokens.  Hypotheses, each explicit and with a non-vacuity `example`:
`Sorted keys` (the listing is strictly ascending: `Collection.List` / parent's `sort.Slice`) and
`"" ∉ keys` (no item has an empty key: every creation API rejects or replaces an empty id).
-/
namespace ScVerif.C15

/-! ## Key-token RPCs: ListModes, ListHails, ListChildren, ListPublications, ListConsumables, ListInventory -/

/-- **C15_enumerates.** From the empty token, whatever (non-negative) size each page asks for, the chain
reaches the empty token within `|keys|+1` pages; the pages concatenate to the listing (every item
exactly once, in order); page `j` has at most `min (size j or 50) 1000` items and reports
`total_size = |keys|`. -/
theorem C15_enumerates (v : Variant) (keys : List String) (hs : Sorted keys) (hne : "" ∉ keys)
    (size : Nat → Int) (hsz : ∀ i, 0 ≤ size i) :
    ∃ pages, chain v keys size (keys.length + 1) 0 .empty = some pages ∧
      (pages.map (·.items)).flatten = keys ∧
      pages.length ≤ keys.length + 1 ∧
      ∀ j p, pages[j]? = some p → (p.items.length : Int) ≤ allowed (size j) ∧ p.total = keys.length := by
  have h0 : nextIndex v keys (lastKeyOf .empty) = 0 := by simp [nextIndex, lastKeyOf]
  obtain ⟨pages, h1, h2, h3, h4⟩ := chain_from v hs hne size hsz (keys.length + 1) 0 .empty (by simp) (by omega)
  rw [h0] at h2 h3
  refine ⟨pages, h1, by simpa using h2, by omega, ?_⟩
  intro j p hp
  simpa using PagesOk_get hsz pages 0 h4 j p hp

/-- **C15_any_token (no panic).** No key list (sorted or not), token or page size makes a List call panic. -/
theorem C15_any_token_no_panic (v : Variant) (keys : List String) (tok : Tok) (size : Int) :
    listPage v keys tok size ≠ .panic := by
  by_cases hb : tok = .bad
  · subst hb; simp [listPage]
  · by_cases hn : size < 0
    · cases tok with
      | bad => exact absurd rfl hb
      | empty => simp [listPage, hn]
      | key k => simp [listPage, hn]
    · rw [listPage_ok v keys tok size hb (by omega)]; simp

/-- **C15_any_token (chain).** A token that decodes to ANY last key `k` (present, deleted, never
present, garbage that happened to decode, or "") starts a chain that reaches the empty token within
`|rest|+1 ≤ |keys|+1` pages and returns exactly the keys after `k`, each once, in order. -/
theorem C15_any_token (v : Variant) (keys : List String) (hs : Sorted keys) (hne : "" ∉ keys)
    (size : Nat → Int) (hsz : ∀ i, 0 ≤ size i) (k : String) :
    ∃ pages, chain v keys size (keys.length + 1) 0 (.key k) = some pages ∧
      (pages.map (·.items)).flatten = after keys k ∧
      pages.length ≤ (after keys k).length + 1 ∧ pages.length ≤ keys.length + 1 ∧
      ∀ j p, pages[j]? = some p → (p.items.length : Int) ≤ allowed (size j) ∧ p.total = keys.length := by
  have hle := nextIndex_le v keys k
  obtain ⟨pages, h1, h2, h3, h4⟩ := chain_from v hs hne size hsz (keys.length + 1) 0 (.key k) (by simp) (by omega)
  simp only [lastKeyOf] at h2 h3
  have hlen : (after keys k).length = keys.length - nextIndex v keys k := by
    rw [← nextIndex_spec v hs k, List.length_drop]
  refine ⟨pages, h1, by rw [h2, nextIndex_spec v hs k], by omega, by omega, ?_⟩
  intro j p hp
  simpa using PagesOk_get hsz pages 0 h4 j p hp

/-- **C15_bad_token.** A token that does not decode is answered with InvalidArgument. -/
theorem C15_bad_token (v : Variant) (keys : List String) (size : Int) :
    listPage v keys .bad size = .err .invalidArgument := by
  simp [listPage]

/-- **C15_negative_size.** A negative page size is answered with an error status (InvalidArgument), for
every key list and token. -/
theorem C15_negative_size (v : Variant) (keys : List String) (tok : Tok) (size : Int) (h : size < 0) :
    listPage v keys tok size = .err .invalidArgument := by
  cases tok <;> simp [listPage, h]

/-- **C15_read_mask.** A read mask does not disturb paging (after 2829c35): with ANY read mask — whether or
not it shows the key field — every call returns the same next token, total and number of items as
without one and never panics; so from the empty token the chain reaches the empty token within
`|keys|+1` pages, the pages hold `|keys|` items in all, respect the size bound, and show the listing itself
when the key is visible. -/
theorem C15_read_mask (v : Variant) (keys : List String) (hs : Sorted keys) (hne : "" ∉ keys)
    (size : Nat → Int) (hsz : ∀ i, 0 ≤ size i) (keyVisible : Bool) :
    (∀ fuel i tok, chainMasked v keys size keyVisible fuel i tok =
      (chain v keys size fuel i tok).map (·.map (Page.display keyVisible))) ∧
    (∀ tok sz, listPageMasked v keys tok sz keyVisible ≠ .panic) ∧
    ∃ pages, chainMasked v keys size keyVisible (keys.length + 1) 0 .empty = some pages ∧
      pages.length ≤ keys.length + 1 ∧
      ((pages.map (·.items)).flatten).length = keys.length ∧
      (keyVisible = true → (pages.map (·.items)).flatten = keys) ∧
      ∀ j p, pages[j]? = some p → (p.items.length : Int) ≤ allowed (size j) ∧ p.total = keys.length := by
  refine ⟨chainMasked_eq v keys size keyVisible, ?_, ?_⟩
  · intro tok sz
    rw [listPageMasked_eq]
    have := C15_any_token_no_panic v keys tok sz
    cases h : listPage v keys tok sz <;> simp_all
  · obtain ⟨pages, h1, h2, h3, h4⟩ := C15_enumerates v keys hs hne size hsz
    refine ⟨pages.map (Page.display keyVisible), by rw [chainMasked_eq, h1]; rfl, by simpa using h3, ?_, ?_, ?_⟩
    · have hl : ∀ (ps : List Page), ((ps.map (Page.display keyVisible)).map (·.items)).flatten.length
          = ((ps.map (·.items)).flatten).length := by
        intro ps
        induction ps with
        | nil => rfl
        | cons q qs ih =>
          simp only [List.map_cons, List.flatten_cons, List.length_append, ih]
          congr 1
          unfold Page.display
          cases keyVisible <;> simp
      rw [hl, h2]
    · intro hv
      subst hv
      have hid : ∀ ps : List Page, ps.map (Page.display true) = ps := by
        intro ps
        induction ps with
        | nil => rfl
        | cons q qs ih => simp [Page.display] at ih ⊢; exact ih
      rw [hid, h2]
    · intro j p hp
      simp only [List.getElem?_map, Option.map_eq_some_iff] at hp
      obtain ⟨q, hq, rfl⟩ := hp
      obtain ⟨a, b⟩ := h4 j q hq
      refine ⟨?_, b⟩
      unfold Page.display
      cases keyVisible <;> simpa using a


/-! ## Any collection contents: the collection layer supplies the hypotheses -/

/-- **C15_listing_canonical.** Whatever sequence of create / ensure / update / delete operations built the
collection (generated ids included, for ANY random candidates), the listing handed to the paging code is
strictly ascending, holds no empty key, holds exactly the ids of the set-specification `IdSet.run`, and is the
only strictly ascending list with those elements (so it does not matter which algorithm `sort.Slice` runs). -/
theorem C15_listing_canonical (ops : List StoreOp) :
    Sorted (listing (Store.run [] ops)) ∧ "" ∉ listing (Store.run [] ops) ∧
    (∀ x, x ∈ listing (Store.run [] ops) ↔ IdSet.run (fun _ => false) ops x = true) ∧
    (∀ l', Sorted l' → (∀ x, x ∈ l' ↔ x ∈ Store.run [] ops) → l' = listing (Store.run [] ops)) := by
  have hi := Store.run_inv ops [] Store.inv_nil
  have hr := Store.run_repr ops [] (fun _ => false) Store.inv_nil repr_nil
  refine ⟨listing_sorted hi, listing_no_empty hi, ?_, ?_⟩
  · intro x; rw [← hr x]; exact mem_sortKeys
  · intro l' hs' hm
    exact sorted_ext hs' (listing_sorted hi) (fun a => by rw [hm a]; exact mem_sortKeys.symm)

/-- **C15_any_contents.** The enumeration theorem without hypotheses on the listing: for ANY history of the
collection, from the empty token and whatever non-negative size each page asks for, the chain ends within
`|items|+1` pages; the concatenated pages are the listing, hold no item twice and hold exactly the ids the
set-specification says are present; every page respects its size bound and reports `total_size = |items|`. -/
theorem C15_any_contents (v : Variant) (ops : List StoreOp) (size : Nat → Int) (hsz : ∀ i, 0 ≤ size i) :
    ∃ pages, chain v (listing (Store.run [] ops)) size ((listing (Store.run [] ops)).length + 1) 0 .empty = some pages ∧
      (pages.map (·.items)).flatten = listing (Store.run [] ops) ∧
      ((pages.map (·.items)).flatten).Nodup ∧
      (∀ x, x ∈ (pages.map (·.items)).flatten ↔ IdSet.run (fun _ => false) ops x = true) ∧
      pages.length ≤ (Store.run [] ops).length + 1 ∧
      ∀ j p, pages[j]? = some p →
        (p.items.length : Int) ≤ allowed (size j) ∧ p.total = (Store.run [] ops).length := by
  obtain ⟨hs, hne, hset, -⟩ := C15_listing_canonical ops
  obtain ⟨pages, h1, h2, h3, h4⟩ := C15_enumerates v _ hs hne size hsz
  have hl : (listing (Store.run [] ops)).length = (Store.run [] ops).length := length_sortKeys _
  refine ⟨pages, h1, h2, by rw [h2]; exact sorted_nodup hs, by rw [h2]; exact hset, by omega, ?_⟩
  intro j p hp
  rw [← hl]
  exact h4 j p hp

/-- **C15_any_token_any_contents.** For ANY history of the collection and a token decoding to ANY key (an id
since deleted, never present, garbage): the chain ends and returns exactly the present ids greater than the key. -/
theorem C15_any_token_any_contents (v : Variant) (ops : List StoreOp) (size : Nat → Int) (hsz : ∀ i, 0 ≤ size i)
    (k : String) (hk : k ≠ "") :
    ∃ pages, chain v (listing (Store.run [] ops)) size ((listing (Store.run [] ops)).length + 1) 0 (.key k) = some pages ∧
      pages.length ≤ (Store.run [] ops).length + 1 ∧
      Sorted ((pages.map (·.items)).flatten) ∧
      ∀ x, x ∈ (pages.map (·.items)).flatten ↔ (IdSet.run (fun _ => false) ops x = true ∧ k < x) := by
  obtain ⟨hs, hne, hset, -⟩ := C15_listing_canonical ops
  obtain ⟨pages, h1, h2, -, h3, -⟩ := C15_any_token v _ hs hne size hsz k
  have hl : (listing (Store.run [] ops)).length = (Store.run [] ops).length := length_sortKeys _
  have haf : after (listing (Store.run [] ops)) k = (listing (Store.run [] ops)).filter (fun x => decide (k < x)) := by
    simp [after, hk]
  refine ⟨pages, h1, by omega, ?_, ?_⟩
  · rw [h2, haf]; exact List.Pairwise.sublist List.filter_sublist hs
  · intro x
    rw [h2, haf, List.mem_filter, hset x]
    simp

/-- **C15_page_shape.** The exact answer sequence when every page asks for the same size `sz ≥ 0`
(`c = min (sz or 50) 1000`), for ANY history of the collection with `n` items: exactly `n / c + 1` pages;
page `j` is items `j·c … (j+1)·c - 1` of the listing; only the last page has an empty next_page_token — so
when `n` is a positive multiple of `c` the chain ends with one EMPTY page (still reporting `total_size = n`) —
and every page reports `total_size = n`. -/
theorem C15_page_shape (v : Variant) (ops : List StoreOp) (sz : Int) (hsz : 0 ≤ sz) :
    ∃ pages, chain v (listing (Store.run [] ops)) (fun _ => sz) ((listing (Store.run [] ops)).length + 1) 0 .empty = some pages ∧
      pages.length = (Store.run [] ops).length / (capPageSize sz).toNat + 1 ∧
      ∀ j p, pages[j]? = some p →
        p.items = ((listing (Store.run [] ops)).drop (j * (capPageSize sz).toNat)).take (capPageSize sz).toNat ∧
        (p.next = none ↔ j + 1 = pages.length) ∧ p.total = (Store.run [] ops).length := by
  obtain ⟨hs, hne, -, -⟩ := C15_listing_canonical ops
  have hl : (listing (Store.run [] ops)).length = (Store.run [] ops).length := length_sortKeys _
  have h0 : nextIndex v (listing (Store.run [] ops)) (lastKeyOf .empty) = 0 := by simp [nextIndex, lastKeyOf]
  obtain ⟨pages, h1, h2, h3⟩ := chain_shape v hs hne sz hsz ((listing (Store.run [] ops)).length + 1) 0 .empty
    (by simp) (by omega)
  rw [h0] at h2 h3
  refine ⟨pages, h1, by rw [h2, hl]; simp, ?_⟩
  intro j p hp
  obtain ⟨a, b, c⟩ := h3 j p hp
  exact ⟨by simpa using a, b, by rw [c, hl]⟩

/-! ## The key FIELD the List RPCs search is the id `Collection.List` sorts by -/

/-- **C15_record_keys.** `Collection.List` sorts the items by the id they are stored under; the List RPCs search,
and mint tokens from, the key FIELD of the stored messages.  For ANY history of the models' creation / update /
deletion APIs — initial records (`WithInitial…`), generated ids, parent `AddChild`/`AddChildTrait`, deletions with
or without allow-missing, `Update*` with or without
`resource.WithCreateIfAbsent()`, with no update mask, a mask naming the key field, a mask leaving it out or a mask
that is not nil but has NO paths (`WithMoreUpdatePaths(key)` leaves only a NIL mask alone), and
`UpdatePublication(id, message)` with a message carrying the same, NO or a FOREIGN `Id` — every stored message carries
the id it is stored under, so what the RPC pages over (`rlisting`) is exactly the sorted id list of `Store.lean` for
the ids' view of the history (a create-if-absent update is an `ensure`): strictly ascending, no empty key. -/
theorem C15_record_keys (ops : List RecOp) :
    (∀ r ∈ RStore.run [] ops, r.key = r.id) ∧
    (RStore.run [] ops).ids = Store.run [] (ops.map RecOp.proj) ∧
    rlisting (RStore.run [] ops) = listing (Store.run [] (ops.map RecOp.proj)) ∧
    Sorted (rlisting (RStore.run [] ops)) ∧ "" ∉ rlisting (RStore.run [] ops) := by
  obtain ⟨hi, hids⟩ := RStore.run_inv ops [] RStore.inv_nil
  have hl : rlisting (RStore.run [] ops) = listing (Store.run [] (ops.map RecOp.proj)) := by
    rw [rlisting_eq hi, hids]; rfl
  obtain ⟨hs, hne, -, -⟩ := C15_listing_canonical (ops.map RecOp.proj)
  exact ⟨hi.2, hids, hl, hl ▸ hs, hl ▸ hne⟩

/-- **C15_any_contents_records.** The enumeration theorem over the key FIELDS: for ANY such history, from the empty
token and whatever non-negative size each page asks for, the chain over what the RPC really searches ends within
`|items|+1` pages; the concatenated pages are that listing, hold no key twice, hold exactly the ids the
set-specification says are present; every page respects its size bound and reports `total_size = |items|`. -/
theorem C15_any_contents_records (v : Variant) (ops : List RecOp) (size : Nat → Int) (hsz : ∀ i, 0 ≤ size i) :
    ∃ pages, chain v (rlisting (RStore.run [] ops)) size ((rlisting (RStore.run [] ops)).length + 1) 0 .empty = some pages ∧
      (pages.map (·.items)).flatten = rlisting (RStore.run [] ops) ∧
      ((pages.map (·.items)).flatten).Nodup ∧
      (∀ x, x ∈ (pages.map (·.items)).flatten ↔ IdSet.run (fun _ => false) (ops.map RecOp.proj) x = true) ∧
      pages.length ≤ (RStore.run [] ops).length + 1 ∧
      ∀ j p, pages[j]? = some p →
        (p.items.length : Int) ≤ allowed (size j) ∧ p.total = (RStore.run [] ops).length := by
  obtain ⟨-, hids, hl, -, -⟩ := C15_record_keys ops
  have hlen : (RStore.run [] ops).length = (Store.run [] (ops.map RecOp.proj)).length := by
    rw [← hids]; simp [RStore.ids]
  rw [hl, hlen]
  exact C15_any_contents v (ops.map RecOp.proj) size hsz

/-- **C15_own_token.** The server never refuses or misreads a token it issued, whatever the keys look like (no
bound on their length or characters: the model's tokens carry the key itself).  For ANY history of the collection,
any well-formed call (any decodable token, any non-negative size) that returns a next_page_token: the token names
the LAST item of the page just returned — an id that is present, hence not empty — and a call carrying it, with
ANY non-negative page size, is answered OK with the items that follow: the two pages together are the next
`c + c'` items of the listing from where the first call started. -/
theorem C15_own_token (v : Variant) (ops : List RecOp) (tok : Tok) (htok : tok ≠ .bad) (size : Int) (hsz : 0 ≤ size)
    (p : Page) (hp : listPage v (rlisting (RStore.run [] ops)) tok size = .ok p) (k : String) (hk : p.next = some k) :
    p.items[p.items.length - 1]? = some k ∧ k ∈ rlisting (RStore.run [] ops) ∧ k ≠ "" ∧
    IdSet.run (fun _ => false) (ops.map RecOp.proj) k = true ∧
    ∀ size', 0 ≤ size' → ∃ q, listPage v (rlisting (RStore.run [] ops)) (.key k) size' = .ok q ∧
      p.items ++ q.items = ((rlisting (RStore.run [] ops)).drop
        (nextIndex v (rlisting (RStore.run [] ops)) (lastKeyOf tok))).take
          ((capPageSize size).toNat + (capPageSize size').toNat) := by
  obtain ⟨-, -, hl, hs, hne⟩ := C15_record_keys ops
  obtain ⟨h1, h2, h3, h4⟩ := own_token v hs hne tok htok size hsz p hp k hk
  refine ⟨h1, h2, h3, ?_, h4⟩
  have := (C15_listing_canonical (ops.map RecOp.proj)).2.2.1 k
  rw [← hl] at this
  exact this.mp h2

/-! ## Collections with an id interceptor (`resource.WithIDInterceptor`) -/

/-- **C15_id_interceptor.** `NewModel(resource.WithIDInterceptor(f))`: every id handed to the collection is mapped
through `f` before it is used as the map key, the stored message keeps its own spelling (`Alpha` under the key
`alpha`), so `Collection.List` — sorted by map key — is NOT ascending in the key field the RPCs search.  For ANY
interceptor `f` that maps no non-empty id to the empty one and is idempotent (`GoodIcpt`; since 929e9c0 `f ""` may be
anything: whether an id was given is decided before the interceptor runs), and
ANY history of the models' creation / update / deletion APIs in any spellings (initial records included, in any
spelling: since 215ba16 `NewCollection` keeps them under `f` of their id too): every item is stored under `f` of its key
field and no key field is empty; hence the key fields are pairwise different and what all six RPCs page over since
0a40c2f — the key fields in ascending order, `flisting` — is strictly ascending without an empty key; from the empty
token, whatever non-negative size each page asks for, the chain ends within `|items|+1` pages, the pages concatenate
to that listing, hold no key twice, hold exactly the key fields of the stored items, respect the size bound and
report `total_size = |items|`. -/
theorem C15_id_interceptor (f : String → String) (hf : GoodIcpt f) (ops : List RecOp) (v : Variant) (size : Nat → Int) (hsz : ∀ i, 0 ≤ size i) :
    (∀ r ∈ RStore.irun f [] ops, r.id = f r.key ∧ r.key ≠ "") ∧
    Sorted (flisting (RStore.irun f [] ops)) ∧ "" ∉ flisting (RStore.irun f [] ops) ∧
    ∃ pages, chain v (flisting (RStore.irun f [] ops)) size ((flisting (RStore.irun f [] ops)).length + 1) 0 .empty
        = some pages ∧
      (pages.map (·.items)).flatten = flisting (RStore.irun f [] ops) ∧
      ((pages.map (·.items)).flatten).Nodup ∧
      (∀ x, x ∈ (pages.map (·.items)).flatten ↔ ∃ r ∈ RStore.irun f [] ops, r.key = x) ∧
      pages.length ≤ (RStore.irun f [] ops).length + 1 ∧
      ∀ j p, pages[j]? = some p →
        (p.items.length : Int) ≤ allowed (size j) ∧ p.total = (RStore.irun f [] ops).length := by
  have hi := RStore.irun_iinv hf ops [] (RStore.iinv_nil f)
  obtain ⟨hs, hne, hlen, hmem⟩ := flisting_facts hi
  obtain ⟨pages, h1, h2, h3, h4⟩ := C15_enumerates v _ hs hne size hsz
  refine ⟨hi.2, hs, hne, pages, h1, h2, by rw [h2]; exact sorted_nodup hs, by rw [h2]; exact hmem, by omega, ?_⟩
  intro j p hp
  rw [← hlen]
  exact h4 j p hp

/-- **C15_id_interceptor_any_token.** Under the same hypotheses a token decoding to ANY key `k` — the spelling of a
stored item, another spelling of it, an absent or deleted one — starts a chain that ends within `|items|+1` pages and
returns exactly the stored key fields greater than `k`, each once, in ascending order. -/
theorem C15_id_interceptor_any_token (f : String → String) (hf : GoodIcpt f) (ops : List RecOp) (v : Variant) (size : Nat → Int) (hsz : ∀ i, 0 ≤ size i)
    (k : String) (hk : k ≠ "") :
    ∃ pages, chain v (flisting (RStore.irun f [] ops)) size ((flisting (RStore.irun f [] ops)).length + 1) 0 (.key k)
        = some pages ∧
      pages.length ≤ (RStore.irun f [] ops).length + 1 ∧
      Sorted ((pages.map (·.items)).flatten) ∧
      ∀ x, x ∈ (pages.map (·.items)).flatten ↔ ((∃ r ∈ RStore.irun f [] ops, r.key = x) ∧ k < x) := by
  have hi := RStore.irun_iinv hf ops [] (RStore.iinv_nil f)
  obtain ⟨hs, hne, hlen, hmem⟩ := flisting_facts hi
  obtain ⟨pages, h1, h2, -, h3, -⟩ := C15_any_token v _ hs hne size hsz k
  have haf : after (flisting (RStore.irun f [] ops)) k
      = (flisting (RStore.irun f [] ops)).filter (fun x => decide (k < x)) := by
    simp [after, hk]
  refine ⟨pages, h1, by omega, ?_, ?_⟩
  · rw [h2, haf]; exact List.Pairwise.sublist List.filter_sublist hs
  · intro x
    rw [h2, haf, List.mem_filter, hmem x]
    simp

/-- **C15_any_stored_contents.** Since 0a40c2f all six listers sort by the key field they search, so paging does not
depend on HOW the items came to be stored: for ANY stored contents — whatever ids the items are stored under, e.g.
records configured through the raw option `resource.WithInitialRecord(id, msg)` with an id unrelated to the message's
key field, or rewritten by a caller's write interceptor — whose key fields are pairwise different and not empty, the
chain from the empty token enumerates exactly the stored key fields once each in ascending order within
`|items|+1` pages, with the size bound and `total_size = |items|` on every page, and a token decoding to ANY key
returns exactly the stored key fields greater than it.  (`C15_id_interceptor` proves the two hypotheses for
everything the models' own APIs can build; both are needed: examples below.) -/
theorem C15_any_stored_contents (s : RStore) (hnd : (s.map (·.key)).Nodup) (hne : ∀ r ∈ s, r.key ≠ "")
    (v : Variant) (size : Nat → Int) (hsz : ∀ i, 0 ≤ size i) :
    (∃ pages, chain v (flisting s) size ((flisting s).length + 1) 0 .empty = some pages ∧
      (pages.map (·.items)).flatten = flisting s ∧
      ((pages.map (·.items)).flatten).Nodup ∧
      (∀ x, x ∈ (pages.map (·.items)).flatten ↔ ∃ r ∈ s, r.key = x) ∧
      pages.length ≤ s.length + 1 ∧
      ∀ j p, pages[j]? = some p → (p.items.length : Int) ≤ allowed (size j) ∧ p.total = s.length) ∧
    ∀ k, k ≠ "" → ∃ pages, chain v (flisting s) size ((flisting s).length + 1) 0 (.key k) = some pages ∧
      pages.length ≤ s.length + 1 ∧
      Sorted ((pages.map (·.items)).flatten) ∧
      ∀ x, x ∈ (pages.map (·.items)).flatten ↔ ((∃ r ∈ s, r.key = x) ∧ k < x) := by
  have hs : Sorted (flisting s) := sorted_sortKeys hnd
  have hlen : (flisting s).length = s.length := by simp [flisting, length_sortKeys]
  have hmem : ∀ x, x ∈ flisting s ↔ ∃ r ∈ s, r.key = x := by
    intro x; unfold flisting; rw [mem_sortKeys, List.mem_map]
  have hne' : "" ∉ flisting s := by
    intro hm
    obtain ⟨r, hr, hk⟩ := (hmem "").mp hm
    exact hne r hr hk
  refine ⟨?_, ?_⟩
  · obtain ⟨pages, h1, h2, h3, h4⟩ := C15_enumerates v _ hs hne' size hsz
    refine ⟨pages, h1, h2, by rw [h2]; exact sorted_nodup hs, by rw [h2]; exact hmem, by omega, ?_⟩
    intro j p hp
    rw [← hlen]
    exact h4 j p hp
  · intro k hk
    obtain ⟨pages, h1, h2, -, h3, -⟩ := C15_any_token v _ hs hne' size hsz k
    have haf : after (flisting s) k = (flisting s).filter (fun x => decide (k < x)) := by
      simp [after, hk]
    refine ⟨pages, h1, by omega, ?_, ?_⟩
    · rw [h2, haf]; exact List.Pairwise.sublist List.filter_sublist hs
    · intro x
      rw [h2, haf, List.mem_filter, hmem x]
      simp

/-- not reachable through the models' APIs, reachable through raw resource options: a hail configured with
`resource.WithInitialRecord("zz", {Id: "b"})` next to `{Id: "c"}` stored under "a" -/
example : rlisting [⟨"zz", "b"⟩, ⟨"a", "c"⟩] = ["c", "b"] ∧ flisting [⟨"zz", "b"⟩, ⟨"a", "c"⟩] = ["b", "c"] := by decide

/-- **C15_interceptor_family.** The hypotheses of `C15_id_interceptor` hold for EVERY per-character normalisation
`String.map g` with `g` idempotent — in particular for the two interceptors the harness configures on the real
collections, ASCII lower- and upper-casing (the documented use: "a case-insensitive collection by mapping all IDs to
lowercase") — and for no interceptor at all. -/
theorem C15_interceptor_family :
    (∀ g : Char → Char, (∀ c, g (g c) = g c) → GoodIcpt (String.map g)) ∧
    GoodIcpt asciiLower ∧ GoodIcpt asciiUpper ∧ GoodIcpt id :=
  ⟨map_good, map_good _ toLower_idem, map_good _ toUpper_idem, ⟨fun _ h => h, fun _ => rfl⟩⟩

/-- **C15_interceptor_identity.** Without an interceptor (`f = id`) the operations of `Icpt.lean` ARE those of
`Records.lean`, and the ascending key fields ARE `Collection.List` seen through the key field: the theorems above
(`C15_record_keys`, `C15_any_contents_records`, `C15_own_token`) speak about the same listing. -/
theorem C15_interceptor_identity (ops : List RecOp) :
    RStore.irun id [] ops = RStore.run [] ops ∧
    flisting (RStore.run [] ops) = rlisting (RStore.run [] ops) := by
  obtain ⟨hi, -⟩ := RStore.run_inv ops [] RStore.inv_nil
  exact ⟨RStore.irun_id ops [], flisting_eq_rlisting hi⟩

/-! ## Writes that carry a write interceptor (vending `Dispense`) -/

/-- **C15_intercepted_writes.** The stored records carry more than their key, and `Dispense` /
`Model.DispenseInstantly` decides what it writes from what is stored, inside a `resource.InterceptBefore` callback
of an update WITHOUT mask (every field the callback leaves behind is written, the key field too).  For ANY id
interceptor `f` with `GoodIcpt f` and ANY history of the models' creation / update / deletion APIs interleaved with
such intercepted writes whose callbacks are TAME — the message they leave carries the stored key field or the
written one (a dispense that succeeds leaves the written key alone; one that fails makes the message a copy of the
stored one) — every item is still stored under `f` of its key field, no key field is empty, and paging is right:
from the empty token the chain ends within `|items|+1` pages, the pages concatenate to the ascending key fields, hold
exactly the stored key fields once each, respect the size bound and report `total_size = |items|`; a token decoding to
any key `k` returns exactly the stored key fields after `k`.  (`Tame` is needed: example `dropKey` below.) -/
theorem C15_intercepted_writes (f : String → String) (hf : GoodIcpt f) (ops : List HOp) (ht : ∀ op ∈ ops, op.Tame)
    (v : Variant) (size : Nat → Int) (hsz : ∀ i, 0 ≤ size i) :
    (∀ r ∈ RStore.hrun f [] ops, r.id = f r.key ∧ r.key ≠ "") ∧
    (∃ pages, chain v (flisting (RStore.hrun f [] ops)) size ((flisting (RStore.hrun f [] ops)).length + 1) 0 .empty
        = some pages ∧
      (pages.map (·.items)).flatten = flisting (RStore.hrun f [] ops) ∧
      ((pages.map (·.items)).flatten).Nodup ∧
      (∀ x, x ∈ (pages.map (·.items)).flatten ↔ ∃ r ∈ RStore.hrun f [] ops, r.key = x) ∧
      pages.length ≤ (RStore.hrun f [] ops).length + 1 ∧
      ∀ j p, pages[j]? = some p →
        (p.items.length : Int) ≤ allowed (size j) ∧ p.total = (RStore.hrun f [] ops).length) ∧
    ∀ k, k ≠ "" →
      ∃ pages, chain v (flisting (RStore.hrun f [] ops)) size ((flisting (RStore.hrun f [] ops)).length + 1) 0 (.key k)
          = some pages ∧
        pages.length ≤ (RStore.hrun f [] ops).length + 1 ∧
        ∀ x, x ∈ (pages.map (·.items)).flatten ↔ ((∃ r ∈ RStore.hrun f [] ops, r.key = x) ∧ k < x) := by
  have hi := RStore.hrun_iinv hf ops [] ht (RStore.iinv_nil f)
  obtain ⟨hs, hne, hlen, hmem⟩ := flisting_facts hi
  refine ⟨hi.2, ?_, ?_⟩
  · obtain ⟨pages, h1, h2, h3, h4⟩ := C15_enumerates v _ hs hne size hsz
    refine ⟨pages, h1, h2, by rw [h2]; exact sorted_nodup hs, by rw [h2]; exact hmem, by omega, ?_⟩
    intro j p hp
    rw [← hlen]
    exact h4 j p hp
  · intro k hk
    obtain ⟨pages, h1, h2, -, h3, -⟩ := C15_any_token v _ hs hne size hsz k
    have haf : after (flisting (RStore.hrun f [] ops)) k
        = (flisting (RStore.hrun f [] ops)).filter (fun x => decide (k < x)) := by
      simp [after, hk]
    refine ⟨pages, h1, by omega, ?_⟩
    intro x
    rw [h2, haf, List.mem_filter, hmem x]
    simp

/-- **C15_failed_dispense_invisible.** A write whose interceptor turns the written message into a copy of the stored
one (what `DispenseInstantly` does when the unit conversion fails, at once or half-way) leaves the collection EXACTLY
as it was, whatever it holds (no invariant needed), whatever id it names and under any interceptor: the listing, and
so every List call with any token and size, is the same before and after; and on a stored item the call reports the
callback's error (`failed`), on an absent one `NotFound`, on the empty id a refusal.  Both callbacks of a dispense
are tame: for EVERY combination of the units a stock keeps Used / Remaining in (or does not keep them) and the unit
dispensed, the callback of `DispenseInstantly` (`dispenseHook`: `updateStock` + `unitpb.Convert` over the unit table)
is tame, and whenever the conversion fails (at once or half-way) the store is left as it was; a history without
intercepted writes is a history of `C15_id_interceptor`. -/
theorem C15_failed_dispense_invisible (f : String → String) (s : RStore) (k : String) :
    (s.hstep f (.hooked k restoreOld)).1 = s ∧
    flisting (s.hstep f (.hooked k restoreOld)).1 = flisting s ∧
    (∀ (v : Variant) (tok : Tok) (size : Int),
      listPage v (flisting (s.hstep f (.hooked k restoreOld)).1) tok size = listPage v (flisting s) tok size) ∧
    ((s.hstep f (.hooked k restoreOld)).2 =
      if k = "" then .res .rejected else if f k ∈ s.ids then .failed else .res .notFound) ∧
    keepNew.Tame ∧ restoreOld.Tame ∧
    (∀ (used remaining : Option Nat) (q : Nat), (dispenseHook used remaining q).Tame ∧
      (dispenseFails used remaining q = true →
        (s.hstep f (.hooked k (dispenseHook used remaining q))).1 = s)) ∧
    ∀ ops : List RecOp, RStore.hrun f s (ops.map .plain) = RStore.irun f s ops := by
  have h := RStore.hstep_restore f s k restoreOld (fun _ _ => rfl)
  refine ⟨h, by rw [h], fun v tok size => by rw [h], ?_, keepNew_tame, restoreOld_tame,
    fun used remaining q => ⟨dispenseHook_tame used remaining q, fun hq => by
      simp only [dispenseHook, hq, if_true]; exact h⟩,
    fun ops => RStore.hrun_plain f ops s⟩
  simp only [RStore.hstep, restoreOld]
  by_cases hk : k = ""
  · simp [hk]
  · by_cases hm : f k ∈ s.ids <;> simp [hk, hm]

/-! ## Writes in flight while the client pages -/

/-- **C15_refused_writes_invisible.** The contents are "held fixed" also while writes that are REFUSED are being
processed.  The write APIs run the caller's write options (`WithExpectedCheck`, interceptors, …) with no lock held,
so a List call can run in the middle of a write; the code commits (`byId[id] = …`, `append(allWasteRecords, wr)`)
only after the verdict, and only an accepted write.  For ANY interleaving of calls entering and leaving
(`Sys.run`), if every call in flight or entering is one that will be refused, then at EVERY point of the
interleaving the state the listers read is the initial one — so every List call made at any point answers as on the
quiescent model: for waste (any token, any size) and for the six collections (the listing they page over). -/
theorem C15_refused_writes_invisible :
    (∀ {σ : Type} (s : Sys σ) (evs : List (Ev σ)), AllRefused s evs → ∀ pre, pre <+: evs → (s.run pre).st = s.st) ∧
    (∀ (s : Sys (List Nat)) evs, AllRefused s evs → ∀ pre, pre <+: evs → ∀ tok size,
      listWaste (s.run pre).st.length tok size = listWaste s.st.length tok size) ∧
    (∀ (s : Sys RStore) evs, AllRefused s evs → ∀ pre, pre <+: evs → ∀ v tok size,
      listPage v (flisting (s.run pre).st) tok size = listPage v (flisting s.st) tok size) := by
  refine ⟨fun s evs h pre hpre => refused_invisible evs s h pre hpre, ?_, ?_⟩
  · intro s evs h pre hpre tok size
    rw [refused_invisible evs s h pre hpre]
  · intro s evs h pre hpre v tok size
    rw [refused_invisible evs s h pre hpre]

/-- **C15_writes_commit_when_they_finish.** Writes that are ACCEPTED, too, are in flight for as long as the caller's
callback runs (no lock is held there), and List calls are made meanwhile.  The listers keep nothing between calls:
every call reads the collection (the record slice) again.  Hence, for ANY interleaving of calls entering and
leaving — accepted and refused ones, any number in flight at once, finishing in any order — (1) the state the
listers read at the end is the initial one with the commits of the accepted calls that have FINISHED applied once
each, in finishing order; (2) at every point before the first accepted call finishes the listers read the initial
contents — a List call issued while a write waits in its callback sees the contents BEFORE that write — and
(3) every List call made after the interleaving (waste: any token, any size; collections: any variant, token, size)
answers as on a quiescent model that was given those writes one after the other: no listing taken while a write
was in flight survives it. -/
theorem C15_writes_commit_when_they_finish :
    (∀ {σ : Type} (s : Sys σ) (evs : List (Ev σ)), (s.run evs).st = applyAll s.st (s.commits evs)) ∧
    (∀ {σ : Type} (s : Sys σ) (evs : List (Ev σ)) pre, pre <+: evs → s.commits pre = [] → (s.run pre).st = s.st) ∧
    (∀ (s : Sys (List Nat)) evs tok size,
      listWaste (s.run evs).st.length tok size = listWaste (applyAll s.st (s.commits evs)).length tok size) ∧
    (∀ (s : Sys RStore) evs v tok size,
      listPage v (flisting (s.run evs).st) tok size = listPage v (flisting (applyAll s.st (s.commits evs))) tok size) := by
  refine ⟨fun s evs => run_st_commits evs s, ?_, ?_, ?_⟩
  · intro σ s evs pre _ hc
    rw [run_st_commits pre s, hc]; rfl
  · intro s evs tok size; rw [run_st_commits]
  · intro s evs v tok size; rw [run_st_commits]

/-! ## Beyond the property: contents that change between pages -/

/-- **C15_changing_contents.** The property holds the contents fixed while paging; this is what remains true
when they are NOT: page `j` of the chain is served from an arbitrary listing `ks j` (each strictly ascending,
no empty key — `C15_listing_canonical`), any ids may be inserted or deleted between pages.  Whenever the chain
reaches the empty token, the concatenated pages are strictly ascending — no item is ever returned twice — and
every id that was present at every page of the chain is returned (exactly once).  (A token whose key has been
deleted is just `C15_any_token`.) -/
theorem C15_changing_contents (v : Variant) (ks : Nat → List String) (hs : ∀ j, Sorted (ks j))
    (hne : ∀ j, "" ∉ ks j) (size : Nat → Int) (hsz : ∀ j, 0 ≤ size j) (fuel : Nat) (pages : List Page)
    (h : chainVar v ks size fuel 0 .empty = some pages) :
    Sorted ((pages.map (·.items)).flatten) ∧ ((pages.map (·.items)).flatten).Nodup ∧
    ∀ x, (∀ j, j < pages.length → x ∈ ks j) →
      x ∈ (pages.map (·.items)).flatten ∧ ((pages.map (·.items)).flatten).count x = 1 := by
  obtain ⟨-, h2, h3⟩ := chainVar_facts v ks hs hne size hsz fuel 0 .empty pages (by simp) h
  have hnd := sorted_nodup h2
  refine ⟨h2, hnd, ?_⟩
  intro x hx
  have hpos := chainVar_ne_nil v ks size fuel 0 .empty pages h
  have hx0 : x ∈ ks 0 := hx 0 hpos
  have hxne : x ≠ "" := fun e => hne 0 (e ▸ hx0)
  have hmem := h3 x (by simpa [lastKeyOf] using empty_lt hxne) (fun j hj => by simpa using hx j hj)
  exact ⟨hmem, by rw [hnd.count]; simp [hmem]⟩

/-! ## waste: ListWasteRecords (index tokens) -/

/-- **C15_waste (enumerates).** Over `n` records the chain from the empty token reaches the empty token
within `n+1` pages and returns record indices `n-1, …, 0` (newest first), each once. -/
theorem C15_waste_enumerates (n : Nat) (size : Nat → Int) (hsz : ∀ i, 0 ≤ size i) :
    ∃ pages, wasteChain n size (n + 1) 0 .empty = some pages ∧
      (pages.map (·.items)).flatten = (List.range n).reverse ∧
      pages.length ≤ n + 1 ∧
      ∀ j p, pages[j]? = some p → (p.items.length : Int) ≤ allowed (size j) ∧ p.total = n := by
  obtain ⟨pages, h1, h2, h3, h4⟩ := wasteChain_from n size hsz (n + 1) 0 n (Nat.le_refl _) (by omega)
  refine ⟨pages, by rw [wasteChain_empty, h1], by rw [h2, down_self], h3, ?_⟩
  intro j p hp
  simpa using WPagesOk_get hsz pages 0 h4 j p hp

/-- **C15_waste (no panic).** No record count, token or page size makes ListWasteRecords panic. -/
theorem C15_waste_no_panic (n : Nat) (tok : WTok) (size : Int) : listWaste n tok size ≠ .panic := by
  have idx : ∀ i : Int, listWaste n (.idx i) size ≠ .panic := by
    intro i
    by_cases hr : i < 0 ∨ i > n
    · simp [listWaste, hr]
    · by_cases hn : size < 0
      · simp [listWaste, hr, hn]
      · obtain ⟨s, rfl⟩ : ∃ s : Nat, i = (s : Int) := ⟨i.toNat, by omega⟩
        rw [listWaste_idx_ok n s size (by omega) (by omega)]; simp
  cases tok with
  | bad => simp [listWaste]
  | empty => rw [listWaste_empty]; exact idx n
  | idx i => exact idx i

/-- **C15_waste (any token).** A token that parses to ANY integer: outside `0..n` it is rejected with
InvalidArgument; inside, the chain terminates within `start+1` pages and returns `start-1, …, 0`. -/
theorem C15_waste_any_token (n : Nat) (size : Nat → Int) (hsz : ∀ i, 0 ≤ size i) (start : Int) :
    ((start < 0 ∨ start > n) → ∀ s, listWaste n (.idx start) s = .err .invalidArgument) ∧
    (0 ≤ start → start ≤ n →
      ∃ pages, wasteChain n size (n + 1) 0 (.idx start) = some pages ∧
        (pages.map (·.items)).flatten = (List.range start.toNat).reverse ∧
        pages.length ≤ start.toNat + 1 ∧
        ∀ j p, pages[j]? = some p → (p.items.length : Int) ≤ allowed (size j) ∧ p.total = n) := by
  constructor
  · intro h s; simp [listWaste, h]
  · intro h0 hn
    obtain ⟨s, rfl⟩ : ∃ s : Nat, start = (s : Int) := ⟨start.toNat, by omega⟩
    obtain ⟨pages, h1, h2, h3, h4⟩ := wasteChain_from n size hsz (n + 1) 0 s (by omega) (by omega)
    refine ⟨pages, h1, by rw [h2, down_self]; simp, by simpa using h3, ?_⟩
    intro j p hp
    simpa using WPagesOk_get hsz pages 0 h4 j p hp

/-- **C15_waste (bad token / negative size).** A token that is not an integer and a negative page size
are answered with an error status. -/
theorem C15_waste_errors (n : Nat) (tok : WTok) (size : Int) :
    listWaste n .bad size = .err .unknown ∧ (size < 0 → ∃ c, listWaste n tok size = .err c) := by
  refine ⟨by simp [listWaste], ?_⟩
  intro h
  cases tok with
  | bad => exact ⟨.unknown, by simp [listWaste]⟩
  | empty => exact ⟨.invalidArgument, by simp [listWaste, h]⟩
  | idx i =>
    by_cases hr : i < 0 ∨ i > n
    · exact ⟨.invalidArgument, by simp [listWaste, hr]⟩
    · exact ⟨.invalidArgument, by simp [listWaste, hr, h]⟩

/-- **C15_waste (page shape).** One page size `sz ≥ 0` throughout (`c = min (sz or 50) 1000`) over `n` records:
exactly `(n-1)/c + 1` pages (one page for an empty model; NO trailing empty page: the token is dropped when a
page reaches the oldest record), page `j` holds records `n - j·c - 1` downwards, only the last page has no
token, every page reports `total_size = n`. -/
theorem C15_waste_page_shape (n : Nat) (sz : Int) (hsz : 0 ≤ sz) :
    ∃ pages, wasteChain n (fun _ => sz) (n + 1) 0 .empty = some pages ∧
      pages.length = (n - 1) / (wasteCount sz).toNat + 1 ∧
      ∀ j p, pages[j]? = some p →
        p.items = down (n - j * (wasteCount sz).toNat) (wasteCount sz).toNat ∧
        (p.next = none ↔ j + 1 = pages.length) ∧ p.total = n := by
  obtain ⟨pages, h1, h2, h3⟩ := wasteChain_shape n sz hsz (n + 1) 0 n (Nat.le_refl _) (by omega)
  exact ⟨pages, by rw [wasteChain_empty, h1], h2, h3⟩

/-- **C15_waste (read mask).** With ANY read mask ListWasteRecords never panics and returns the same token,
total and number of records as without one (the records themselves when the id is visible). -/
theorem C15_waste_read_mask (n : Nat) (tok : WTok) (size : Int) (idVisible : Bool) :
    listWasteMasked n tok size idVisible ≠ .panic ∧
    (∀ c, listWaste n tok size = .err c → listWasteMasked n tok size idVisible = .err c) ∧
    ∀ p, listWaste n tok size = .ok p → ∃ q, listWasteMasked n tok size idVisible = .ok q ∧
      q.next = p.next ∧ q.total = p.total ∧ q.items.length = p.items.length ∧
      (idVisible = true → q.items = p.items.map some) := by
  have hnp := C15_waste_no_panic n tok size
  unfold listWasteMasked
  cases h : listWaste n tok size with
  | panic => exact absurd h hnp
  | err c => simp
  | ok p =>
    refine ⟨by simp, by simp, ?_⟩
    intro p' hp
    cases hp
    refine ⟨_, rfl, rfl, rfl, by simp [WPage.display], ?_⟩
    intro hv; subst hv; simp [WPage.display]

/-! ## Non-vacuity and the repaired defects -/

/-- The hypotheses are satisfiable by a reachable listing (ids that are prefixes of each other). -/
example : Sorted ["a", "a/", "ab", "b"] ∧ "" ∉ ["a", "a/", "ab", "b"] := by
  refine ⟨?_, by decide⟩
  simp [Sorted]

/-- The model computes what the theorem says on that listing (page size 3 then 1). -/
example : (chain .gt ["a", "a/", "ab", "b"] (fun i => if i = 0 then 3 else 1) 5 0 .empty).map (·.map (·.items))
    = some [["a", "a/", "ab"], ["b"], []] := by decide

/-- A history with generated ids, a duplicate, an update and a delete; the listing and a three-page chain. -/
example : listing (Store.run [] [.add "b" (fun _ => ""), .add "" (fun i => if i = 0 then "" else if i = 1 then "b" else "gen"),
      .add "b" (fun _ => ""), .ensure "a", .ensure "", .update "zz", .add "c" (fun _ => ""), .delete "c"]) = ["a", "b", "gen"] ∧
    (chain .gt ["a", "b", "gen"] (fun _ => 1) 4 0 .empty).map (·.map (·.items)) = some [["a"], ["b"], ["gen"], []] := by
  decide

/-- A history through every update route: a create-if-absent update with a mask that leaves the key out, an
update of "b" with a message carrying the FOREIGN id "x", one without id, an update of the empty id: the RPC pages
over the sorted ids. -/
example : rlisting (RStore.run [] [.initial "d", .initial "", .initial "d", .add "b" (fun _ => ""),
      .updateMsg "c" true .withoutKey, .updateId "b" "x" false .none, .updateId "a" "" true .withoutKey,
      .updateId "" "q" true .none, .updateMsg "" true .none, .updateMsg "zz" false .withKey, .delete "q" true, .delete "d" false,
      .updateMsg "e" true .empty, .updateId "f" "" true .empty, .updateMsg "g" false .empty])
    = ["a", "b", "c", "e", "f"] := by decide

/-- Before b40db78 (hail, publication, vending ×2; electric: 2b5cf2c) a create-if-absent update whose mask leaves
the key field out stored an item with an EMPTY key field, and before eb62186 `UpdatePublication("", …)` /
`UpdateMode({Id: ""}, …)` with create-if-absent stored one under the EMPTY id: the first page then repeats for ever. -/
example : rlisting (RStore.runWith false [] [.add "a" (fun _ => ""), .updateMsg "b" true .withoutKey]) = ["a", ""] ∧
    rlisting (RStore.runWith false [] [.add "a" (fun _ => ""), .updateMsg "b" true .empty]) = ["a", ""] ∧
    rlisting (RStore.runWith false [] [.add "a" (fun _ => ""), .updateId "" "" true .none]) = ["", "a"] ∧
    chain .gt ["", "a"] (fun _ => 1) 10 0 .empty = none := by decide

/-- Why the key field must be the storage id (`UpdatePublication` forces it): were the foreign `Id` "x" written into
the item stored under "b", the RPC would search the UNSORTED sequence a, x, c, d: after the page [a, x] the token "x"
finds nothing greater, and c, d are never returned although total_size says 4. -/
example : rlisting ((RStore.run [] [.add "a" (fun _ => ""), .add "b" (fun _ => ""), .add "c" (fun _ => ""),
      .add "d" (fun _ => "")]).write "b" "x" false true).1 = ["a", "x", "c", "d"] ∧
    (chain .gt ["a", "x", "c", "d"] (fun _ => 2) 5 0 .empty).map (·.map (·.items)) = some [["a", "x"], []] := by decide

/-- `C15_own_token` on ids no generator would invent (35 and 304 bytes): the token minted from the long id is served. -/
example : listPage .gt ["site-7/lobby/lift-bank-A/hail-0001", "site-7/lobby/lift-bank-A/hail-0002"] .empty 1
      = .ok ⟨["site-7/lobby/lift-bank-A/hail-0001"], some "site-7/lobby/lift-bank-A/hail-0001", 2⟩ ∧
    listPage .gt ["site-7/lobby/lift-bank-A/hail-0001", "site-7/lobby/lift-bank-A/hail-0002"]
      (.key "site-7/lobby/lift-bank-A/hail-0001") 1
      = .ok ⟨["site-7/lobby/lift-bank-A/hail-0002"], some "site-7/lobby/lift-bank-A/hail-0002", 2⟩ := by decide

/-- A case-folding interceptor on the ids used below (`foldAB`) satisfies `GoodIcpt` (and so does no interceptor at all). -/
example : GoodIcpt id := ⟨fun _ h => h, fun _ => rfl⟩
example : GoodIcpt foldAB := by
  refine ⟨?_, ?_⟩
  · intro x hx
    unfold foldAB
    split
    · decide
    · split
      · decide
      · exact hx
  · intro x
    unfold foldAB
    by_cases h1 : x = "A"
    · subst h1; decide
    · by_cases h2 : x = "B"
      · subst h2; decide
      · simp [h1, h2]

/-- `C15_id_interceptor` on a history in several spellings: `a` and `B` are created, `A` re-spells the first item
(an update always writes the key field), `b` finds the second one: `Collection.List` shows `A, B` stored under
`a, b`; a later `Ab`… the RPCs page over the ascending spellings. -/
example : rlisting (RStore.irun foldAB [] [.add "a" (fun _ => ""), .add "B" (fun _ => ""), .add "b" (fun _ => ""),
      .updateMsg "A" false .withoutKey, .ensure "c", .delete "C" true]) = ["A", "B", "c"] ∧
    (RStore.irun foldAB [] [.add "a" (fun _ => ""), .add "B" (fun _ => "")]).ids = ["b", "a"] ∧
    rlisting (RStore.irun foldAB [] [.add "a" (fun _ => ""), .add "B" (fun _ => "")]) = ["a", "B"] ∧
    flisting (RStore.irun foldAB [] [.add "a" (fun _ => ""), .add "B" (fun _ => "")]) = ["B", "a"] := by decide

/-- Before 0a40c2f the five `gt` listers searched `Collection.List` as it came — here `a, B`, not ascending — and
the item `B` was never returned (page size 1: `[a]`, then the token `a` finds nothing greater); ascending, it is. -/
example : (chain .gt ["a", "B"] (fun _ => 1) 3 0 .empty).map (·.map (·.items)) = some [["a"], []] ∧
    (chain .gt ["B", "a"] (fun _ => 1) 3 0 .empty).map (·.map (·.items)) = some [["B"], ["a"], []] := by decide

/-- Before 215ba16 `NewCollection` stored an initial record under the id it was configured with, so
`WithInitialMode({Id: "A"})` plus `AddMode({Id: "A"})` (stored under `a`) were two items with the SAME key field, and
one-item pages lost the second; now the second creation is refused and the listing holds `A` once. -/
example : flisting (RStore.irunWith false foldAB [] [.initial "A", .add "A" (fun _ => "")]) = ["A", "A"] ∧
    (chain .gt ["A", "A"] (fun _ => 1) 3 0 .empty).map (·.map (·.items)) = some [["A"], []] ∧
    flisting (RStore.irun foldAB [] [.initial "A", .add "A" (fun _ => "")]) = ["A"] ∧
    (RStore.irun foldAB [] [.initial "A", .initial "a", .updateMsg "a" false .empty]).map (·.id) = ["a"] := by decide

/-- `Hook.Tame` is needed in `C15_intercepted_writes`: an "undo" that resets the written message and puts back
only the quantities (seeded change 19) drops the key field; the write has no mask, so the stock is stored without a
name: it sorts first, a one-item page mints the token "" and the chain never ends.  The real callbacks leave the
listing alone (failed) or keep the name (succeeded). -/
example : flisting (RStore.hrun id [] [.plain (.initial "coffee"), .plain (.initial "milk"), .hooked "milk" dropKey])
      = ["", "coffee"] ∧
    chain .gt ["", "coffee"] (fun _ => 1) 10 0 .empty = none ∧
    flisting (RStore.hrun id [] [.plain (.initial "coffee"), .plain (.initial "milk"), .hooked "milk" restoreOld,
      .hooked "milk" keepNew, .hooked "tea" keepNew]) = ["coffee", "milk"] ∧
    (RStore.hstep id [⟨"milk", "milk"⟩] (.hooked "milk" restoreOld)).2 = .failed ∧
    (RStore.hstep id [⟨"milk", "milk"⟩] (.hooked "milk" keepNew)).2 = .res (.ok "milk") ∧
    (RStore.hstep id [⟨"milk", "milk"⟩] (.hooked "tea" keepNew)).2 = .res .notFound ∧
    (RStore.hstep foldAB [⟨"a", "a"⟩] (.hooked "A" keepNew)).1 = [⟨"a", "A"⟩] := by decide

/-- The unit table: litres convert to cubic metres and cups, not to kilograms or metres; an unspecified unit converts
only to itself; a stock kept in litres AND kilograms fails every dispense - in litres half-way (Used converts,
Remaining does not). -/
example : convertOk 3 4 = true ∧ convertOk 3 5 = true ∧ convertOk 3 6 = false ∧ convertOk 3 2 = false ∧
    convertOk 0 0 = true ∧ convertOk 0 3 = false ∧ convertOk 1 1 = true ∧
    dispenseFails (some 3) (some 3) 4 = false ∧ dispenseFails (some 3) (some 6) 3 = true ∧
    dispenseFails (some 3) (some 6) 6 = true ∧ dispenseFails none (some 6) 6 = false ∧
    dispenseFails none none 0 = false := by decide

/-- The former hypothesis `f "" = ""` is gone (929e9c0): before it `Collection.Update` tested the INTERCEPTED id for
emptiness, so an interceptor that maps the empty id to a key of its own switched id generation off and
`CreateMode({})` stored a mode without Id (`irunWith false`); now the id as given decides and an id is generated. -/
example : flisting (RStore.irunWith false (fun s => if s = "" then "x" else s) [] [.add "" (fun _ => "gen")]) = [""] ∧
    flisting (RStore.irun (fun s => if s = "" then "x" else s) [] [.add "" (fun _ => "gen")]) = ["gen"] ∧
    GoodIcpt (fun s => if s = "" then "x" else s) := by
  refine ⟨by decide, by decide, ⟨?_, ?_⟩⟩
  · intro x hx; simp [hx]
  · intro x
    by_cases h : x = ""
    · subst h; decide
    · simp [h]

/-- `C15_refused_writes_invisible` is about real interleavings: two refused `AddWasteRecord` calls in flight at
once, finishing in the other order, around three records; and the accepted call it does not cover changes the list
only when it finishes. -/
example : (Sys.run ⟨[0, 1, 2], []⟩ [wasteAdd false 7, wasteAdd false 8, .finish 1, .finish 0]).st = [0, 1, 2] ∧
    (Sys.run ⟨[0, 1, 2], []⟩ [wasteAdd true 7]).st = [0, 1, 2] ∧
    (Sys.run ⟨[0, 1, 2], []⟩ [wasteAdd true 7, .finish 0]).st = [0, 1, 2, 7] := by decide

/-- `C15_writes_commit_when_they_finish` on a real interleaving: an accepted `AddWasteRecord(7)` enters, a refused
one and a second accepted one (8) enter behind it, 8 finishes first, then the refused one, then 7: the list grows by
8 when 8 finishes and by 7 when 7 finishes, in that order; before the first finish nothing is visible.  And on a
collection: an accepted `DeleteMode("a")` parked in its callback, `UpdateMode({Id: "c"}, WithCreateIfAbsent())`
accepted meanwhile. -/
example : (Sys.run ⟨[0], []⟩ [wasteAdd true 7, wasteAdd false 9, wasteAdd true 8]).st = [0] ∧
    (Sys.run ⟨[0], []⟩ [wasteAdd true 7, wasteAdd false 9, wasteAdd true 8, .finish 2]).st = [0, 8] ∧
    (Sys.run ⟨[0], []⟩ [wasteAdd true 7, wasteAdd false 9, wasteAdd true 8, .finish 2, .finish 1, .finish 0]).st = [0, 8, 7] ∧
    flisting (Sys.run ⟨RStore.run [] [.add "a" (fun _ => ""), .add "b" (fun _ => "")], []⟩
      [.begin true (fun s => (s.step (.delete "a" false)).1),
       .begin true (fun s => (s.step (.updateMsg "c" true .none)).1), .finish 1]).st = ["a", "b", "c"] ∧
    flisting (Sys.run ⟨RStore.run [] [.add "a" (fun _ => ""), .add "b" (fun _ => "")], []⟩
      [.begin true (fun s => (s.step (.delete "a" false)).1),
       .begin true (fun s => (s.step (.updateMsg "c" true .none)).1), .finish 1, .finish 0]).st = ["b", "c"] := by decide

/-- Changing contents: "b" is deleted and "ab", "z" are inserted after page 0, "c" is inserted behind the
token after page 1: nothing comes twice, and "a", "d" (present throughout) are returned. -/
example : (chainVar .gt (fun j => if j = 0 then ["a", "b", "d"] else if j = 1 then ["a", "ab", "d", "z"] else ["a", "ab", "c", "d", "z"])
      (fun _ => 1) 6 0 .empty).map (·.map (·.items)) = some [["a"], ["ab"], ["c"], ["d"], ["z"], []] := by decide

/-- The trailing empty page of `C15_page_shape` (2 items, page size 2) and its absence for waste. -/
example : chain .ge ["a", "b"] (fun _ => 2) 3 0 .empty = some [⟨["a", "b"], some "b", 2⟩, ⟨[], none, 2⟩] ∧
    wasteChain 2 (fun _ => 2) 3 0 .empty = some [⟨[1, 0], none, 2⟩] := by decide

/-- The hypothesis `"" ∉ keys` is needed: with an item whose key is empty, a one-item first page mints a
token whose last key is "" and the listing restarts for ever (no creation API can produce such an item;
the harness monitors that no listed key is empty). -/
example : listPage .gt ["", "a"] .empty 1 = .ok ⟨[""], some "", 2⟩ ∧
    listPage .gt ["", "a"] (.key "") 1 = .ok ⟨[""], some "", 2⟩ ∧
    chain .gt ["", "a"] (fun _ => 1) 10 0 .empty = none := by decide

/-- Before 2829c35 a read mask that hides the key made the first page repeat for ever (the token was
minted from the masked item: empty key), and a later token returned nothing. -/
example : listPageMaskedUnfixed .gt ["a", "b"] .empty 1 false = .ok ⟨[""], some "", 2⟩ ∧
    listPageMaskedUnfixed .gt ["a", "b"] (.key "") 1 false = .ok ⟨[""], some "", 2⟩ ∧
    listPageMaskedUnfixed .gt ["a", "b"] (.key "a") 1 false = .ok ⟨[], none, 2⟩ ∧
    listPageMasked .gt ["a", "b"] .empty 1 false = .ok ⟨[""], some "a", 2⟩ := by decide

/-- Before f9325fa a negative page size panicked (index out of range [-2]). -/
example : listPageUnfixed .gt ["a"] .empty (-1) = .panic := by decide
example : listPageUnfixed .ge [] (.key "x") (-5) = .panic := by decide
/-- Before c118094/f9325fa: a waste token above the record count panicked; a negative size returned one record. -/
example : listWasteUnfixed 3 (.idx 4) 0 = .panic := by decide
example : listWasteUnfixed 3 .empty (-2) = .ok ⟨[2], none, 3⟩ := by decide

end ScVerif.C15
