import ScVerif.C15.Lemmas
/-!
C15 — the collection layer below the key-token listers (`pkg/resource/collection.go` as the six models use it).

`Collection` keeps its items in a Go map `byId` (no order, no duplicate ids); `Collection.List` copies the map
into a slice and `sort.Slice`s it by id.  The creation / update / deletion APIs of the models decide which ids
can ever be in the map:

* `Collection.Add(id, …, WithGenIDIfAbsent())` (electric `CreateMode`/`AddMode`, hail `CreateHail`, publication
  `CreatePublication`, vending `CreateConsumable` / `CreateStock`): an empty id is replaced by
  `GenerateUniqueId` (up to 10 random candidates; the first one that is non-empty and not yet used, else
  `Aborted`); an id that is already used answers `AlreadyExists` and changes nothing;
* parent `AddChild` (`validateChild` refuses an empty name before the collection is touched; a duplicate changes
  nothing) and `AddChildTrait` (`Update(name, …, WithCreateIfAbsent())`; an empty name is refused);
* `Update*` of an existing id never changes the set of ids (the record stays stored under, and keeps, its id);
* `Delete*` removes the id.

Here the store is the list of the map's ids in insertion order (a map has no order: `listing` sorts), the
operations are those five, and `Reach` is everything they can produce from the empty collection.
-/
namespace ScVerif.C15

/-! ### sort.Slice by id -/

/-- Ordered insert: one step of insertion sort. -/
def insertKey (k : String) : List String → List String
  | [] => [k]
  | x :: xs => if k < x then k :: x :: xs else x :: insertKey k xs

/-- `sort.Slice(tmp, func(i, j) bool { return tmp[i].id < tmp[j].id })` on distinct ids.  Any correct sorting
algorithm returns this list (`sorted_ext`): a strictly ascending permutation is unique. -/
def sortKeys : List String → List String
  | [] => []
  | x :: xs => insertKey x (sortKeys xs)

theorem mem_insertKey {a k : String} : ∀ {l : List String}, a ∈ insertKey k l ↔ a = k ∨ a ∈ l := by
  intro l
  induction l with
  | nil => simp [insertKey]
  | cons x xs ih =>
    unfold insertKey
    split
    · simp
    · simp only [List.mem_cons, ih]
      constructor
      · rintro (h | h | h)
        · exact Or.inr (Or.inl h)
        · exact Or.inl h
        · exact Or.inr (Or.inr h)
      · rintro (h | h | h)
        · exact Or.inr (Or.inl h)
        · exact Or.inl h
        · exact Or.inr (Or.inr h)

theorem length_insertKey (k : String) : ∀ l : List String, (insertKey k l).length = l.length + 1 := by
  intro l
  induction l with
  | nil => rfl
  | cons x xs ih =>
    unfold insertKey
    split
    · rfl
    · simp [ih]

theorem sorted_insertKey {k : String} : ∀ {l : List String}, Sorted l → k ∉ l → Sorted (insertKey k l) := by
  intro l
  induction l with
  | nil => intro _ _; simp [insertKey, Sorted]
  | cons x xs ih =>
    intro hs hk
    have hs' : (∀ a ∈ xs, x < a) ∧ Sorted xs := by simpa [Sorted] using hs
    unfold insertKey
    split
    · rename_i hlt
      refine List.pairwise_cons.mpr ⟨?_, hs⟩
      intro a ha
      rcases List.mem_cons.mp ha with rfl | ha
      · exact hlt
      · exact Std.lt_trans hlt (hs'.1 a ha)
    · rename_i hnlt
      have hne : x ≠ k := fun e => hk (by simp [e])
      have hxk : x < k := Std.lt_of_le_of_ne (Std.not_lt.mp hnlt) hne
      refine List.pairwise_cons.mpr ⟨?_, ih hs'.2 (fun h => hk (List.mem_cons_of_mem _ h))⟩
      intro a ha
      rcases mem_insertKey.mp ha with rfl | ha
      · exact hxk
      · exact hs'.1 a ha

theorem mem_sortKeys {a : String} : ∀ {l : List String}, a ∈ sortKeys l ↔ a ∈ l := by
  intro l
  induction l with
  | nil => simp [sortKeys]
  | cons x xs ih => simp [sortKeys, mem_insertKey, ih]

theorem length_sortKeys : ∀ l : List String, (sortKeys l).length = l.length := by
  intro l
  induction l with
  | nil => rfl
  | cons x xs ih => simp [sortKeys, length_insertKey, ih]

theorem sorted_sortKeys : ∀ {l : List String}, l.Nodup → Sorted (sortKeys l) := by
  intro l
  induction l with
  | nil => intro _; simp [sortKeys, Sorted]
  | cons x xs ih =>
    intro h
    have h' := List.nodup_cons.mp h
    exact sorted_insertKey (ih h'.2) (fun hm => h'.1 (mem_sortKeys.mp hm))

/-- A strictly ascending list is determined by its elements: whatever algorithm `sort.Slice` uses, a sorted
permutation of distinct ids is THE listing. -/
theorem sorted_ext : ∀ {l₁ l₂ : List String}, Sorted l₁ → Sorted l₂ → (∀ a, a ∈ l₁ ↔ a ∈ l₂) → l₁ = l₂ := by
  intro l₁
  induction l₁ with
  | nil =>
    intro l₂ _ _ h
    cases l₂ with
    | nil => rfl
    | cons y ys => exact absurd ((h y).mpr (by simp)) (by simp)
  | cons x xs ih =>
    intro l₂ h1 h2 h
    cases l₂ with
    | nil => exact absurd ((h x).mp (by simp)) (by simp)
    | cons y ys =>
      have h1' : (∀ a ∈ xs, x < a) ∧ Sorted xs := by simpa [Sorted] using h1
      have h2' : (∀ a ∈ ys, y < a) ∧ Sorted ys := by simpa [Sorted] using h2
      have hxy : x = y := by
        rcases List.mem_cons.mp ((h x).mp (by simp)) with e | hx
        · exact e
        · rcases List.mem_cons.mp ((h y).mpr (by simp)) with e | hy
          · exact e.symm
          · exact absurd (Std.lt_trans (h2'.1 x hx) (h1'.1 y hy)) Std.lt_irrefl
      subst hxy
      congr 1
      apply ih h1'.2 h2'.2
      intro a
      constructor
      · intro ha
        rcases List.mem_cons.mp ((h a).mp (List.mem_cons_of_mem _ ha)) with e | h'
        · subst e; exact absurd (h1'.1 a ha) Std.lt_irrefl
        · exact h'
      · intro ha
        rcases List.mem_cons.mp ((h a).mpr (List.mem_cons_of_mem _ ha)) with e | h'
        · subst e; exact absurd (h2'.1 a ha) Std.lt_irrefl
        · exact h'

theorem sorted_nodup {l : List String} (h : Sorted l) : l.Nodup :=
  List.Pairwise.imp (fun hlt e => by subst e; exact Std.lt_irrefl hlt) h

/-! ### the collection and its operations -/

/-- The ids of `byId`, most recently created first. -/
abbrev Store := List String

/-- What `Collection.List` hands to the paging code (as keys). -/
def listing (s : Store) : List String := sortKeys s

/-- `GenerateUniqueId`: `tries` more candidates `cand i, cand (i+1), …`; the first that is non-empty and unused. -/
def genId (cand : Nat → String) (used : String → Bool) : Nat → Nat → Option String
  | 0, _ => none
  | tries + 1, i =>
    if cand i ≠ "" ∧ used (cand i) = false then some (cand i) else genId cand used tries (i + 1)

inductive StoreOp where
  /-- `Collection.Add(id, …, WithGenIDIfAbsent())`; `cand` are the random candidates of the id generator -/
  | add (id : String) (cand : Nat → String)
  /-- parent `AddChild` / `AddChildTrait`: the name is required; an existing child keeps the id set as it is -/
  | ensure (name : String)
  /-- `Update*` without create-if-absent -/
  | update (id : String)
  | delete (id : String)

inductive StoreRes where
  | ok (id : String)
  | alreadyExists
  | notFound
  | aborted      -- id generation attempts exhausted
  | rejected     -- the empty name is refused before the collection is touched
  deriving DecidableEq, Repr

def Store.step (s : Store) : StoreOp → Store × StoreRes
  | .add id cand =>
    match (if id = "" then genId cand (fun c => decide (c ∈ s)) 10 0 else some id) with
    | none => (s, .aborted)
    | some id' => if id' ∈ s then (s, .alreadyExists) else (id' :: s, .ok id')
  | .ensure name =>
    if name = "" then (s, .rejected)
    else if name ∈ s then (s, .ok name) else (name :: s, .ok name)
  | .update id => if id ∈ s then (s, .ok id) else (s, .notFound)
  | .delete id => if id ∈ s then (s.erase id, .ok id) else (s, .notFound)

def Store.run (s : Store) : List StoreOp → Store
  | [] => s
  | op :: ops => Store.run (s.step op).1 ops

/-- Invariant of the collection: a map has no duplicate ids, and no API stores an empty id. -/
def Store.Inv (s : Store) : Prop := s.Nodup ∧ "" ∉ s

theorem genId_spec (cand : Nat → String) (used : String → Bool) :
    ∀ tries i id, genId cand used tries i = some id → id ≠ "" ∧ used id = false := by
  intro tries
  induction tries with
  | zero => intro i id h; simp [genId] at h
  | succ t ih =>
    intro i id h
    unfold genId at h
    split at h
    · rename_i hc
      cases h
      exact hc
    · exact ih _ _ h

theorem Store.step_inv (s : Store) (op : StoreOp) (h : s.Inv) : (s.step op).1.Inv := by
  obtain ⟨hnd, hne⟩ := h
  cases op with
  | add id cand =>
    simp only [Store.step]
    split
    · exact ⟨hnd, hne⟩
    · rename_i id' hid
      split
      · exact ⟨hnd, hne⟩
      · rename_i hnm
        have hid' : id' ≠ "" := by
          by_cases he : id = ""
          · simp only [he, if_true] at hid
            exact (genId_spec _ _ _ _ _ hid).1
          · simp only [he, if_false, Option.some.injEq] at hid
            exact hid ▸ he
        refine ⟨List.nodup_cons.mpr ⟨hnm, hnd⟩, ?_⟩
        intro hm
        rcases List.mem_cons.mp hm with e | hm
        · exact hid' e.symm
        · exact hne hm
  | ensure name =>
    simp only [Store.step]
    split
    · exact ⟨hnd, hne⟩
    · rename_i hn
      split
      · exact ⟨hnd, hne⟩
      · rename_i hnm
        refine ⟨List.nodup_cons.mpr ⟨hnm, hnd⟩, ?_⟩
        intro hm
        rcases List.mem_cons.mp hm with e | hm
        · exact hn e.symm
        · exact hne hm
  | update id =>
    simp only [Store.step]
    split <;> exact ⟨hnd, hne⟩
  | delete id =>
    simp only [Store.step]
    split
    · exact ⟨hnd.erase _, fun hm => hne (List.mem_of_mem_erase hm)⟩
    · exact ⟨hnd, hne⟩

theorem Store.run_inv : ∀ (ops : List StoreOp) (s : Store), s.Inv → (s.run ops).Inv := by
  intro ops
  induction ops with
  | nil => intro s h; exact h
  | cons op ops ih => intro s h; exact ih _ (s.step_inv op h)

theorem Store.inv_nil : Store.Inv [] := ⟨List.nodup_nil, by simp⟩

theorem listing_sorted {s : Store} (h : s.Inv) : Sorted (listing s) := sorted_sortKeys h.1

theorem listing_no_empty {s : Store} (h : s.Inv) : "" ∉ listing s := fun hm => h.2 (mem_sortKeys.mp hm)

/-! ### Spec: the collection as a set (characteristic function), independent of lists and sorting -/

abbrev IdSet := String → Bool

def IdSet.step (f : IdSet) : StoreOp → IdSet
  | .add id cand =>
    match (if id = "" then genId cand f 10 0 else some id) with
    | none => f
    | some id' => fun x => decide (x = id') || f x
  | .ensure name => if name = "" then f else fun x => decide (x = name) || f x
  | .update _ => f
  | .delete id => fun x => !decide (x = id) && f x

def IdSet.run (f : IdSet) : List StoreOp → IdSet
  | [] => f
  | op :: ops => IdSet.run (f.step op) ops

/-- The store represents the set. -/
def Repr (s : Store) (f : IdSet) : Prop := ∀ x, x ∈ s ↔ f x = true

theorem genId_congr (cand : Nat → String) {u₁ u₂ : String → Bool} (h : ∀ x, u₁ x = u₂ x) :
    ∀ tries i, genId cand u₁ tries i = genId cand u₂ tries i := by
  intro tries
  induction tries with
  | zero => intro i; rfl
  | succ t ih => intro i; simp only [genId, h, ih]

theorem Store.step_repr (s : Store) (f : IdSet) (op : StoreOp) (hnd : s.Nodup) (h : Repr s f) :
    Repr (s.step op).1 (f.step op) := by
  have hu : ∀ x, (fun c => decide (c ∈ s)) x = f x := by
    intro x
    by_cases hx : x ∈ s
    · simp [hx, (h x).mp hx]
    · have : f x = false := by
        cases hf : f x with
        | false => rfl
        | true => exact absurd ((h x).mpr hf) hx
      simp [hx, this]
  cases op with
  | add id cand =>
    simp only [Store.step, IdSet.step]
    rw [genId_congr cand hu]
    split
    · exact h
    · rename_i id' _
      split
      · rename_i hm
        intro x
        have := (h id').mp hm
        by_cases hx : x = id'
        · subst hx; simp [hm, this]
        · simp [hx, h x]
      · intro x
        simp [List.mem_cons, h x]
  | ensure name =>
    simp only [Store.step, IdSet.step]
    split
    · exact h
    · split
      · rename_i hm
        intro x
        have := (h name).mp hm
        by_cases hx : x = name
        · subst hx; simp [hm, this]
        · simp [hx, h x]
      · intro x
        simp [List.mem_cons, h x]
  | update id =>
    simp only [Store.step, IdSet.step]
    split <;> exact h
  | delete id =>
    simp only [Store.step, IdSet.step]
    split
    · intro x
      rw [hnd.mem_erase_iff]
      by_cases hx : x = id
      · simp [hx]
      · simp [hx, h x]
    · rename_i hm
      intro x
      by_cases hx : x = id
      · subst hx
        have : f x = false := by
          cases hf : f x with
          | false => rfl
          | true => exact absurd ((h x).mpr hf) hm
        simp [hm, this]
      · simp [hx, h x]

theorem Store.run_repr : ∀ (ops : List StoreOp) (s : Store) (f : IdSet), s.Inv → Repr s f →
    Repr (s.run ops) (f.run ops) := by
  intro ops
  induction ops with
  | nil => intro s f _ h; exact h
  | cons op ops ih =>
    intro s f hi h
    exact ih _ _ (s.step_inv op hi) (s.step_repr f op hi.1 h)

theorem repr_nil : Repr [] (fun _ => false) := by intro x; simp

end ScVerif.C15
