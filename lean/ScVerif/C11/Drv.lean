import ScVerif.Base.Line
import ScVerif.C11.Lockset
import ScVerif.C11.Slice
import ScVerif.C11.ExecCheck
import ScVerif.C11.ExecNeed
import ScVerif.C11.ExecSync
import ScVerif.C11.Many
/-! Driver handler for C11: evaluates the executable lockset definitions on rows sent by the harness.

Row encoding (no spaces): `field,kind,phase,role,held,rel,acq` with `kind ∈ {R,W}`, `phase ∈ {init,live}`,
`held = l:R;l:X;…` or `-`, `rel`/`acq` = `c;c;…` or `-`; all names are numbers.

* `own <t> <i> <j> <ev> …`  → `norelease=<0|1> noacquire=<0|1>` (ExecSync.lean: goroutine t executes no release at
                              positions [i, j) / no acquire at positions (i, j]; events as for `exec`, plus `X/t` an access)
* `pair <rowA> <rowB>`      → `conflict=<0|1> ordered=<0|1> ok=<0|1>`
* `racefree <row> <row> …`  → `true` | `false i:j,i:j,…` (unordered conflicting pairs, i ≤ j)
* `grouped <row> <row> …`   → `grouped=<0|1> sorted=<0|1> racefree=<0|1>` (the kernel's decision `raceFreeG`)
* `frozen <field> <row> …`  → `<0|1>` (`frozenInB`: no live write row of that field)
* `append <len> <cap> <n>`  → `inplace=<0|1> writes=<cell;cell;…|->` (`appendInPlace`, `appendWrites` on a slice of array 0)
* `exec <cr> <ev> <ev> …`   → `ok=<accepted> L0=<shared>/<excl> L1=… L2=… C0=<0|1> C1=… C2=… pub=<0|1> got=<n>`: the execution
  semantics of `Exec.lean` run as far as it allows (`xrunCount`), with the holders of locks 0..2 and the closed
  channels 0..2 in the state reached; events `A/t/l/R|X` (acquire), `U/t/l/R|X` (release), `C/t/c` (close),
  `O/t/c` (observe closed), `P/t` (publish), `G/t` (obtain the reference), `D/t` (leave: done with the
  object), `J/t` (join)
* `many <o>@<ev> <o>@<ev> …` → `ok=<accepted> pv=<0|1> | <state of object 0> | <object 1> | <object 2>`: the many-object
  semantics of `Many.lean` (every object created by goroutine 1) run as far as it allows (`mrunCount`); per object the
  summary of `exec` with `ok` = the number of that object's events among the accepted ones (`proj`); `pv` = every
  one-object projection of the WHOLE list is an execution of `Exec.lean` (by `C11_objects_independent` that is
  `accepted = length`); domain: objects 0..2
* `racy <rowA> <rowB>`      → `valid=<0|1> conf=<0|1> sync=<0|1> ordered=<0|1> consistent=<0|1>`: the witness execution
  `racyExec a b` of `ExecNeed.lean` — is it an execution (`xrunCount`), does it do what the rows say
  (`conformsB`, roles as in the theorem), is there a synchronisation between the two accesses (`syncBetween`),
  does the discipline order the pair (`orderedB`); `consistent` = not (valid ∧ conf ∧ ordered)
-/
namespace ScVerif.C11
open ScVerif.Line

def parseNatList? (s : String) : Option (List Nat) :=
  if s = "-" then some [] else (s.splitOn ";").mapM parseNat?

def parseHeld? (s : String) : Option (List (Nat × LMode)) :=
  if s = "-" then some []
  else (s.splitOn ";").mapM fun p =>
    match p.splitOn ":" with
    | [l, "R"] => (parseNat? l).map fun n => (n, LMode.shared)
    | [l, "X"] => (parseNat? l).map fun n => (n, LMode.excl)
    | _ => none

def parseRow? (s : String) : Option Access :=
  match s.splitOn "," with
  | [f, k, ph, ro, h, rel, acq] => do
    let field ← parseNat? f
    let kind ← (match k with | "R" => some Kind.R | "W" => some Kind.W | _ => none)
    let phase ← (match ph with | "init" => some Phase.init | "live" => some Phase.live | _ => none)
    let role ← parseNat? ro
    let held ← parseHeld? h
    let relAfter ← parseNatList? rel
    let acqBefore ← parseNatList? acq
    pure { field, kind, fn := 0, held, phase, role, relAfter, acqBefore }
  | _ => none

def bit (b : Bool) : String := if b then "1" else "0"

def parseMode? : String → Option LMode
  | "R" => some LMode.shared
  | "X" => some LMode.excl
  | _ => none

def parseEv? (s : String) : Option XEv :=
  match s.splitOn "/" with
  | ["A", t, l, m] => do pure (XEv.acq (← parseNat? t) (← parseNat? l) (← parseMode? m))
  | ["U", t, l, m] => do pure (XEv.rel (← parseNat? t) (← parseNat? l) (← parseMode? m))
  | ["C", t, c] => do pure (XEv.close (← parseNat? t) (← parseNat? c))
  | ["O", t, c] => do pure (XEv.obs (← parseNat? t) (← parseNat? c))
  | ["P", t] => do pure (XEv.pub (← parseNat? t))
  | ["G", t] => do pure (XEv.get (← parseNat? t))
  | ["D", t] => do pure (XEv.leave (← parseNat? t))
  | ["J", t] => do pure (XEv.join (← parseNat? t))
  | ["X", t] => do pure (XEv.acc (← parseNat? t) ⟨0, .R, 0, [], .live, 0, [], []⟩)
  | _ => none

def parseMEv? (s : String) : Option MEv :=
  match s.splitOn "@" with
  | [o, e] => do pure ((← parseNat? o), (← parseEv? e))
  | _ => none

def showExec (n : Nat) (s : XState) : String :=
  let lk (l : Nat) : String :=
    let hs := s.held.filter fun e => e.2.1 == l
    s!"L{l}={(hs.filter fun e => e.2.2 == LMode.shared).length}/{(hs.filter fun e => e.2.2 == LMode.excl).length}"
  let ch (c : Nat) : String := s!"C{c}={bit (s.closed.contains c)}"
  s!"ok={n} {lk 0} {lk 1} {lk 2} {ch 0} {ch 1} {ch 2} pub={bit s.pubd} got={s.got.length}"

def handle (toks : List String) : String :=
  match toks with
  | ["pair", a, b] =>
    match parseRow? a, parseRow? b with
    | some a, some b =>
      s!"conflict={bit (conflictB a b)} ordered={bit (orderedB a b)} ok={bit (pairOkB a b)}"
    | _, _ => "!bad-op"
  | "racefree" :: rows =>
    match rows.mapM parseRow? with
    | some tbl =>
      if raceFreeB tbl then "true"
      else "false " ++ ",".intercalate ((badPairs tbl).map fun (i, j) => s!"{i}:{j}")
    | none => "!bad-op"
  | "grouped" :: rows =>
    match rows.mapM parseRow? with
    | some tbl => s!"grouped={bit (raceFreeG tbl)} sorted={bit (sortedByFieldB tbl)} racefree={bit (raceFreeB tbl)}"
    | none => "!bad-op"
  | "frozen" :: f :: rows =>
    match parseNat? f, rows.mapM parseRow? with
    | some f, some tbl => bit (frozenInB tbl f)
    | _, _ => "!bad-op"
  | ["append", l, c, n] =>
    match parseNat? l, parseNat? c, parseNat? n with
    | some l, some c, some n =>
      if l ≤ c then
        let s : Slice := ⟨0, l, c⟩
        let ws := (appendWrites s n).map fun p => toString p.2
        s!"inplace={bit (appendInPlace s n)} writes={if ws.isEmpty then "-" else ";".intercalate ws}"
      else "!bad-op"
    | _, _, _ => "!bad-op"
  | ["racy", a, b] =>
    match parseRow? a, parseRow? b with
    | some a, some b =>
      let es := racyExec a b
      let n := (racyPre a b).length
      let valid := (xrunCount 1 XState.init es).1 == es.length
      let conf := conformsB 1 (fun r => if r = a.role then 1 else 2) [a, b] es
      let ord := orderedB a b
      s!"valid={bit valid} conf={bit conf} sync={bit (syncBetween es n (n + 1))} ordered={bit ord} consistent={bit (!(valid && conf && ord))}"
    | _, _ => "!bad-op"
  | "own" :: t :: i :: j :: evs =>
    match parseNat? t, parseNat? i, parseNat? j, evs.mapM parseEv? with
    | some t, some i, some j, some es => s!"norelease={bit (noReleaseBy es t i j)} noacquire={bit (noAcquireBy es t i j)}"
    | _, _, _, _ => "!bad-op"
  | "many" :: evs =>
    match evs.mapM parseMEv? with
    | some es =>
      let r := mrunCount (fun _ => 1) minit es
      let done := es.take r.1
      let per (o : Nat) : String := showExec (proj o done).length (r.2 o)
      let pv := (List.range 3).all fun o => (xrunCount 1 XState.init (proj o es)).1 == (proj o es).length
      s!"ok={r.1} pv={bit pv} | {per 0} | {per 1} | {per 2}"
    | none => "!bad-op"
  | "exec" :: cr :: evs =>
    match parseNat? cr, evs.mapM parseEv? with
    | some cr, some es =>
      let r := xrunCount cr XState.init es
      showExec r.1 r.2
    | _, _ => "!bad-op"
  | _ => "!bad-op"

end ScVerif.C11
