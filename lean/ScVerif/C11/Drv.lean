import ScVerif.Base.Line
/-! Driver handler for C11 (stub: replaced by the property's owner). -/
namespace ScVerif.C11

def handle (_toks : List String) : String := "!bad-op"

end ScVerif.C11
