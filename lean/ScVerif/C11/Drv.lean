import ScVerif.Base.Line
import ScVerif.C11.Lockset
import ScVerif.C11.Slice
/-! Driver handler for C11: evaluates the executable lockset definitions on rows sent by the harness.

Row encoding (no spaces): `field,kind,phase,role,held,rel,acq` with `kind ∈ {R,W}`, `phase ∈ {init,live}`,
`held = l:R;l:X;…` or `-`, `rel`/`acq` = `c;c;…` or `-`; all names are numbers.

* `pair <rowA> <rowB>`      → `conflict=<0|1> ordered=<0|1> ok=<0|1>`
* `racefree <row> <row> …`  → `true` | `false i:j,i:j,…` (unordered conflicting pairs, i ≤ j)
* `grouped <row> <row> …`   → `grouped=<0|1> sorted=<0|1> racefree=<0|1>` (the kernel's decision `raceFreeG`)
* `frozen <field> <row> …`  → `<0|1>` (`frozenInB`: no live write row of that field)
* `append <len> <cap> <n>`  → `inplace=<0|1> writes=<cell;cell;…|->` (`appendInPlace`, `appendWrites` on a slice of array 0)
-/
namespace ScVerif.C11
open ScVerif.Line

def parseNatList? (s : String) : Option (List Nat) :=
  if s = "-" then some [] else (s.splitOn ";").mapM parseNat?

def parseHeld? (s : String) : Option (List (Nat × LMode)) :=
  if s = "-" then some []
  else (s.splitOn ";").mapM fun p =>
    match p.splitOn ":" with
    | [l, "R"] => (parseNat? l).map fun n => (n, LMode.shared)
    | [l, "X"] => (parseNat? l).map fun n => (n, LMode.excl)
    | _ => none

def parseRow? (s : String) : Option Access :=
  match s.splitOn "," with
  | [f, k, ph, ro, h, rel, acq] => do
    let field ← parseNat? f
    let kind ← (match k with | "R" => some Kind.R | "W" => some Kind.W | _ => none)
    let phase ← (match ph with | "init" => some Phase.init | "live" => some Phase.live | _ => none)
    let role ← parseNat? ro
    let held ← parseHeld? h
    let relAfter ← parseNatList? rel
    let acqBefore ← parseNatList? acq
    pure { field, kind, fn := 0, held, phase, role, relAfter, acqBefore }
  | _ => none

def bit (b : Bool) : String := if b then "1" else "0"

def handle (toks : List String) : String :=
  match toks with
  | ["pair", a, b] =>
    match parseRow? a, parseRow? b with
    | some a, some b =>
      s!"conflict={bit (conflictB a b)} ordered={bit (orderedB a b)} ok={bit (pairOkB a b)}"
    | _, _ => "!bad-op"
  | "racefree" :: rows =>
    match rows.mapM parseRow? with
    | some tbl =>
      if raceFreeB tbl then "true"
      else "false " ++ ",".intercalate ((badPairs tbl).map fun (i, j) => s!"{i}:{j}")
    | none => "!bad-op"
  | "grouped" :: rows =>
    match rows.mapM parseRow? with
    | some tbl => s!"grouped={bit (raceFreeG tbl)} sorted={bit (sortedByFieldB tbl)} racefree={bit (raceFreeB tbl)}"
    | none => "!bad-op"
  | "frozen" :: f :: rows =>
    match parseNat? f, rows.mapM parseRow? with
    | some f, some tbl => bit (frozenInB tbl f)
    | _, _ => "!bad-op"
  | ["append", l, c, n] =>
    match parseNat? l, parseNat? c, parseNat? n with
    | some l, some c, some n =>
      if l ≤ c then
        let s : Slice := ⟨0, l, c⟩
        let ws := (appendWrites s n).map fun p => toString p.2
        s!"inplace={bit (appendInPlace s n)} writes={if ws.isEmpty then "-" else ";".intercalate ws}"
      else "!bad-op"
    | _, _, _ => "!bad-op"
  | _ => "!bad-op"

end ScVerif.C11
