import ScVerif.C11.ExecSync
import ScVerif.C11.ExecNeed
import ScVerif.C11.LocksetLemmas
/-!
C11 — property theorems about WHO has to synchronise (round 7, `ExecSync.lean`), for every list of events of
the semantics of `Exec.lean`: happens-before between two goroutines leaves the first one through a release
that the first goroutine itself executes and enters the second one through an acquire that the second
goroutine itself executes.  Consequence for arguments a caller lends to the library (the class of seeded
change C11-17: a goroutine started from a timer reads the message that is being written): what the owner's
side does to the object after it handed it to a goroutine is ordered with that goroutine's accesses by
nothing the rest of the program does — only by a release of the owner's own after the access and an acquire
of the reader's own before its access.
-/
namespace ScVerif.C11

/-- **Happens-before leaves a goroutine through its own release.**  In every list of events: if position
`i` happens before position `j` and the two events are executed by different goroutines, then the goroutine
of `i` itself executes a release (unlock, close, publication, leave) at or after `i` and before `j`. -/
theorem C11_hb_leaves_through_own_release {es : List XEv} {i j : Nat} {e₁ e₂ : XEv} (h : HB es i j)
    (h₁ : es[i]? = some e₁) (h₂ : es[j]? = some e₂) (hne : e₁.thr ≠ e₂.thr) :
    ∃ p e, i ≤ p ∧ p < j ∧ es[p]? = some e ∧ e.isRelease = true ∧ e.thr = e₁.thr :=
  hb_needs_own_release h h₁ h₂ hne

/-- **…and enters the other goroutine through that goroutine's own acquire** (lock, observed close, receipt
of the reference, join) after `i` and at or before `j`. -/
theorem C11_hb_enters_through_own_acquire {es : List XEv} {i j : Nat} {e₁ e₂ : XEv} (h : HB es i j)
    (h₁ : es[i]? = some e₁) (h₂ : es[j]? = some e₂) (hne : e₁.thr ≠ e₂.thr) :
    ∃ q e, i < q ∧ q ≤ j ∧ es[q]? = some e ∧ e.isAcquire = true ∧ e.thr = e₂.thr :=
  hb_needs_own_acquire h h₁ h₂ hne

/-- **A lent argument.**  In every list of events, for any two accesses at positions `i < j` by different
goroutines: if the first goroutine executes no release in `[i, j)`, or the second executes no acquire in
`(i, j]` — whatever all OTHER goroutines lock, close, publish or join in between — the two accesses are
unordered both ways.  (With `conflict a b` that is a data race; the statement does not need it.) -/
theorem C11_lent_argument_unordered {es : List XEv} {i j t₁ t₂ : Nat} {a b : Access} (hij : i < j)
    (hi : es[i]? = some (XEv.acc t₁ a)) (hj : es[j]? = some (XEv.acc t₂ b)) (hne : t₁ ≠ t₂)
    (hn : noReleaseBy es t₁ i j = true ∨ noAcquireBy es t₂ i j = true) : ¬ HB es i j ∧ ¬ HB es j i :=
  ⟨fun h => hn.elim (fun hr => not_hb_of_no_own_release (e₁ := XEv.acc t₁ a) (e₂ := XEv.acc t₂ b) hi hj hne hr h)
      (fun ha => not_hb_of_no_own_acquire (e₁ := XEv.acc t₁ a) (e₂ := XEv.acc t₂ b) hi hj hne ha h),
   fun h => absurd (hb_lt h) (by omega)⟩

/-- **The start of a timer goroutine orders what came before it, and nothing after** (the shape of seeded
change C11-17): `exAlarm` is an execution of the semantics that does what the two lock-free rows say; the
owner's write BEFORE it armed the timer happens before the alarm goroutine's read (program order, the
publication→receipt edge, program order), the owner's write AFTER it does not — although a third goroutine
and the alarm goroutine lock and unlock a common mutex in between — and the two rows conflict: a data race. -/
theorem C11_timer_goroutine_reading_lent_argument_races :
    (∃ sf, xrun 1 XState.init exAlarm = some sf) ∧ Conforms 1 (fun _ => 0) [lentW, lentR] exAlarm
    ∧ exAlarm[0]? = some (XEv.acc 1 lentW) ∧ exAlarm[3]? = some (XEv.acc 1 lentW)
    ∧ exAlarm[8]? = some (XEv.acc 2 lentR) ∧ conflict lentW lentR
    ∧ HB exAlarm 0 8 ∧ ¬ HB exAlarm 3 8 ∧ ¬ HB exAlarm 8 3 :=
  have h := C11_lent_argument_unordered (es := exAlarm) (i := 3) (j := 8) (t₁ := 1) (t₂ := 2) (a := lentW)
    (b := lentR) (by decide) (by decide) (by decide) (by decide) (Or.inl (by decide))
  ⟨⟨⟨[], [], true, [2]⟩, by decide⟩, conformsB_sound (by decide), by decide, by decide, by decide,
    ⟨rfl, Or.inl rfl⟩,
    HB.trans (HB.po (i := 0) (j := 1) (e₁ := XEv.acc 1 lentW) (e₂ := XEv.pub 1) (by decide) (by decide) (by decide) rfl)
      (HB.trans (HB.publ (i := 1) (j := 2) (t := 1) (t' := 2) (by decide) (by decide) (by decide))
        (HB.po (i := 2) (j := 8) (e₁ := XEv.get 2) (e₂ := XEv.acc 2 lentR) (by decide) (by decide) (by decide) rfl)),
    h.1, h.2⟩

/-- …the other order in time (the wait was in the precondition callback, the library filters the update
afterwards): the reader never releases, so the owner's later write is unordered with the read as well, even
though the owner takes a lock in between. -/
example : (∃ sf, xrun 1 XState.init exAlarmLate = some sf) ∧ Conforms 1 (fun _ => 0) [lentW, lentR] exAlarmLate
    ∧ ¬ HB exAlarmLate 3 6 ∧ ¬ HB exAlarmLate 6 3 :=
  have h := C11_lent_argument_unordered (es := exAlarmLate) (i := 3) (j := 6) (t₁ := 2) (t₂ := 1) (a := lentR)
    (b := lentW) (by decide) (by decide) (by decide) (by decide) (Or.inl (by decide))
  ⟨⟨⟨[], [], true, [2]⟩, by decide⟩, conformsB_sound (by decide), h.1, h.2⟩

/-- the side conditions are not vacuous: with a release by the first goroutine and an acquire by the second
in between (the fix: hand the goroutine a copy made before it starts, or join it) both checks fail and the
accesses ARE ordered -/
example : noReleaseBy exLocked 1 3 6 = false ∧ noAcquireBy exLocked 2 3 6 = false ∧ HB exLocked 3 6 :=
  ⟨by decide, by decide,
   discipline_orders (cr := 1) (ρ := fun _ => 0) (tbl := [exW, exR])
    (sf := ⟨[(2, 0, .shared)], [], true, [2]⟩) (t₁ := 1) (t₂ := 2) (a := exW) (b := exR)
    (by decide) (by decide) (conformsB_sound (by decide)) (by decide) (by decide) (by decide) (by decide)
    ⟨rfl, Or.inl rfl⟩⟩

/-- the pair of rows `lent.go` emits refutes the discipline -/
example : ¬ raceFree [lentW, lentR] := by decide

end ScVerif.C11
