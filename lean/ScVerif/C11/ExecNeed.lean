import ScVerif.C11.Exec
/-!
C11 — the lock discipline is NECESSARY for the executions of `Exec.lean`, not only sufficient: for two
conflicting rows that the table's `ordered` does not order (neither is constructor-phase, they do not
share a non-zero role, no common lock with an exclusive side, no close edge) there is an execution that
does everything the two rows say and in which the two accesses are not ordered by happens-before.

The execution: the creator (goroutine 1) publishes the object, goroutine 2 obtains it, a third goroutine
closes every channel one of the rows wants to have observed closed, goroutines 1 and 2 observe theirs,
goroutine 1 takes the locks of row `a`, goroutine 2 the locks of row `b` (possible: every common lock is
shared on both sides), then both access.  Side conditions: a row names each lock once, and no row lists
one channel both as closed after it and as observed closed before it (such a row has no execution).
-/
namespace ScVerif.C11

/-- the acquisitions of goroutine `t` for the lock list of a row -/
def acqEvs (t : Nat) (hs : List (Nat × LMode)) : List XEv := hs.map fun p => XEv.acq t p.1 p.2

def pushAll (t : Nat) : List (Nat × LMode) → LState → LState
  | [], st => st
  | p :: hs, st => pushAll t hs ((t, p.1, p.2) :: st)

theorem pushAll_keeps {t : Nat} {hs : List (Nat × LMode)} : ∀ {st : LState} {x : Nat × Nat × LMode}, x ∈ st →
    x ∈ pushAll t hs st := by
  induction hs with
  | nil => intro st x h; exact h
  | cons p hs ih => intro st x h; exact ih (List.mem_cons_of_mem _ h)

theorem pushAll_has {t : Nat} {hs : List (Nat × LMode)} : ∀ {st : LState} {p : Nat × LMode}, p ∈ hs →
    (t, p.1, p.2) ∈ pushAll t hs st := by
  induction hs with
  | nil => intro st p h; cases h
  | cons q hs ih =>
    intro st p h
    rcases List.mem_cons.mp h with h | h
    · subst h; simp only [pushAll]; exact pushAll_keeps List.mem_cons_self
    · exact ih h

theorem pushAll_mem {t : Nat} {hs : List (Nat × LMode)} : ∀ {st : LState} {x : Nat × Nat × LMode},
    x ∈ pushAll t hs st → x ∈ st ∨ (x.1 = t ∧ (x.2.1, x.2.2) ∈ hs) := by
  induction hs with
  | nil => intro st x h; exact Or.inl h
  | cons q hs ih =>
    intro st x h
    rcases ih h with h | h
    · rcases List.mem_cons.mp h with h | h
      · subst h; exact Or.inr ⟨rfl, List.mem_cons_self⟩
      · exact Or.inl h
    · exact Or.inr ⟨h.1, List.mem_cons_of_mem _ h.2⟩

/-- a goroutine can take a list of distinct locks one after the other when every lock of the list that
somebody holds already is held shared by other goroutines and wanted shared -/
theorem xrun_acqEvs {cr t : Nat} {hs : List (Nat × LMode)} : ∀ {s : XState},
    (hs.map Prod.fst).Nodup →
    (∀ p ∈ hs, ∀ e ∈ s.held, e.2.1 = p.1 → e.1 ≠ t ∧ p.2 = LMode.shared ∧ e.2.2 = LMode.shared) →
    xrun cr s (acqEvs t hs) = some { s with held := pushAll t hs s.held } := by
  induction hs with
  | nil => intro s _ _; simp [acqEvs, xrun, pushAll]
  | cons p hs ih =>
    intro s hnd hok
    have hnd' : p.1 ∉ hs.map Prod.fst ∧ (hs.map Prod.fst).Nodup :=
      List.nodup_cons.mp (by rw [List.map_cons] at hnd; exact hnd)
    have hca : canAcq s.held t p.1 p.2 = true := by
      simp only [canAcq, List.all_eq_true]
      intro e he
      by_cases hl : e.2.1 = p.1
      · obtain ⟨h1, h2, h3⟩ := hok p List.mem_cons_self e he hl
        simp [h1, h2, h3]
      · simp [hl]
    simp only [acqEvs, List.map_cons, xrun, xstep, hca, if_true, Option.bind_some]
    have := ih (s := { s with held := (t, p.1, p.2) :: s.held }) hnd'.2 (by
      intro q hq e he hl
      rcases List.mem_cons.mp he with he | he
      · subst he
        exact absurd (List.mem_map.mpr ⟨q, hq, hl.symm⟩) hnd'.1
      · exact hok q (List.mem_cons_of_mem _ hq) e he hl)
    simpa [acqEvs, pushAll] using this

/-- a list without repetitions with the same elements -/
def dedup : List Nat → List Nat
  | [] => []
  | c :: cs => if (dedup cs).contains c then dedup cs else c :: dedup cs

theorem mem_dedup {c : Nat} : ∀ {l : List Nat}, c ∈ dedup l ↔ c ∈ l := by
  intro l
  induction l with
  | nil => simp [dedup]
  | cons d ds ih =>
    simp only [dedup]
    split
    · rename_i h
      have hd : d ∈ dedup ds := by simpa using h
      constructor
      · intro hc; exact List.mem_cons_of_mem _ (ih.mp hc)
      · intro hc
        rcases List.mem_cons.mp hc with hc | hc
        · rw [hc]; exact hd
        · exact ih.mpr hc
    · simp only [List.mem_cons, ih]

theorem nodup_dedup : ∀ (l : List Nat), (dedup l).Nodup := by
  intro l
  induction l with
  | nil => simp [dedup]
  | cons d ds ih =>
    simp only [dedup]
    split
    · exact ih
    · rename_i h
      exact List.nodup_cons.mpr ⟨by simpa using h, ih⟩

def closeEvs (cs : List Nat) : List XEv := cs.map fun c => XEv.close 3 c
def obsEvs (t : Nat) (cs : List Nat) : List XEv := cs.map fun c => XEv.obs t c

def pushClosed : List Nat → List Nat → List Nat
  | [], st => st
  | c :: cs, st => pushClosed cs (c :: st)

theorem mem_pushClosed {c : Nat} : ∀ {cs st : List Nat}, c ∈ pushClosed cs st ↔ c ∈ cs ∨ c ∈ st := by
  intro cs
  induction cs with
  | nil => intro st; simp [pushClosed]
  | cons d ds ih =>
    intro st
    simp only [pushClosed, ih, List.mem_cons]
    constructor
    · rintro (h | h | h)
      · exact Or.inl (Or.inr h)
      · exact Or.inl (Or.inl h)
      · exact Or.inr h
    · rintro ((h | h) | h)
      · exact Or.inr (Or.inl h)
      · exact Or.inl h
      · exact Or.inr (Or.inr h)

/-- distinct channels that are still open can be closed one after the other -/
theorem xrun_closeEvs {cr : Nat} {cs : List Nat} : ∀ {s : XState}, cs.Nodup → (∀ c ∈ cs, c ∉ s.closed) →
    xrun cr s (closeEvs cs) = some { s with closed := pushClosed cs s.closed } := by
  induction cs with
  | nil => intro s _ _; simp [closeEvs, xrun, pushClosed]
  | cons c cs ih =>
    intro s hnd hopen
    have hnd' := List.nodup_cons.mp hnd
    have hc : s.closed.contains c = false := by
      simpa using hopen c List.mem_cons_self
    simp only [closeEvs, List.map_cons, xrun, xstep, hc, Bool.false_eq_true, if_false, Option.bind_some]
    have := ih (s := { s with closed := c :: s.closed }) hnd'.2 (by
      intro d hd hm
      rcases List.mem_cons.mp hm with hm | hm
      · exact hnd'.1 (hm ▸ hd)
      · exact hopen d (List.mem_cons_of_mem _ hd) hm)
    simpa [closeEvs, pushClosed] using this

/-- closed channels can be observed closed, and nothing changes -/
theorem xrun_obsEvs {cr t : Nat} {cs : List Nat} {s : XState} (h : ∀ c ∈ cs, c ∈ s.closed) :
    xrun cr s (obsEvs t cs) = some s := by
  induction cs with
  | nil => simp [obsEvs, xrun]
  | cons c cs ih =>
    have hc : s.closed.contains c = true := by simpa using h c List.mem_cons_self
    simp only [obsEvs, List.map_cons, xrun, xstep, hc, if_true, Option.bind_some]
    exact ih fun d hd => h d (List.mem_cons_of_mem _ hd)

/-- the channels somebody has to close first -/
def racyChans (a b : Access) : List Nat := dedup (a.acqBefore ++ b.acqBefore)

def racyPre (a b : Access) : List XEv :=
  [XEv.pub 1, XEv.get 2] ++ closeEvs (racyChans a b) ++ obsEvs 1 a.acqBefore ++ obsEvs 2 b.acqBefore
    ++ acqEvs 1 a.held ++ acqEvs 2 b.held

/-- the witness execution for two rows -/
def racyExec (a b : Access) : List XEv := racyPre a b ++ [XEv.acc 1 a, XEv.acc 2 b]

def racyState (a b : Access) : XState :=
  ⟨pushAll 2 b.held (pushAll 1 a.held []), pushClosed (racyChans a b) [], true, [2]⟩

theorem racyPre_plain {a b : Access} {e : XEv} (h : e ∈ racyPre a b) :
    (∀ t x, e ≠ XEv.acc t x) ∧ (∀ t c, e = XEv.close t c → c ∈ a.acqBefore ∨ c ∈ b.acqBefore) := by
  simp only [racyPre, acqEvs, closeEvs, obsEvs, List.cons_append, List.nil_append, List.mem_cons, List.mem_append,
    List.mem_map, List.append_assoc] at h
  rcases h with h | h | ⟨c, hc, h⟩ | ⟨c, _, h⟩ | ⟨c, _, h⟩ | ⟨p, _, h⟩ | ⟨p, _, h⟩ <;> subst h <;>
    first
    | exact ⟨fun _ _ h => XEv.noConfusion h, fun _ _ h => XEv.noConfusion h⟩
    | (refine ⟨fun _ _ h => XEv.noConfusion h, fun t d h => ?_⟩
       cases h
       exact List.mem_append.mp (mem_dedup.mp hc))

theorem racyPre_obs {a b : Access} :
    (∀ c ∈ a.acqBefore, XEv.obs 1 c ∈ racyPre a b) ∧ (∀ c ∈ b.acqBefore, XEv.obs 2 c ∈ racyPre a b) := by
  constructor <;> intro c hc <;>
    simp only [racyPre, acqEvs, closeEvs, obsEvs, List.cons_append, List.nil_append, List.mem_cons, List.mem_append,
      List.mem_map, List.append_assoc]
  · exact Or.inr (Or.inr (Or.inr (Or.inl ⟨c, hc, rfl⟩)))
  · exact Or.inr (Or.inr (Or.inr (Or.inr (Or.inl ⟨c, hc, rfl⟩))))

theorem not_commonLock_shared {a b : Access} (h : ¬ commonLock a b) {l : Nat} {m₁ m₂ : LMode}
    (h₁ : (l, m₁) ∈ a.held) (h₂ : (l, m₂) ∈ b.held) : m₁ = LMode.shared ∧ m₂ = LMode.shared := by
  cases m₁ <;> cases m₂ <;> first
    | exact ⟨rfl, rfl⟩
    | exact absurd ⟨l, _, _, h₁, h₂, Or.inl rfl⟩ h
    | exact absurd ⟨l, _, _, h₁, h₂, Or.inr rfl⟩ h

theorem racyPre_run {a b : Access} (hcl : ¬ commonLock a b) (hda : (a.held.map Prod.fst).Nodup)
    (hdb : (b.held.map Prod.fst).Nodup) : xrun 1 XState.init (racyPre a b) = some (racyState a b) := by
  let cl := pushClosed (racyChans a b) []
  have hmem : ∀ c, c ∈ a.acqBefore ∨ c ∈ b.acqBefore → c ∈ cl := fun c hc =>
    mem_pushClosed.mpr (Or.inl (mem_dedup.mpr (List.mem_append.mpr hc)))
  have h₀ : xrun 1 ⟨[], [], true, [2]⟩ (closeEvs (racyChans a b)) = some ⟨[], cl, true, [2]⟩ :=
    xrun_closeEvs (s := ⟨[], [], true, [2]⟩) (nodup_dedup _) (by intro c _ h; cases h)
  have ho₁ : xrun 1 ⟨[], cl, true, [2]⟩ (obsEvs 1 a.acqBefore) = some ⟨[], cl, true, [2]⟩ :=
    xrun_obsEvs (s := ⟨[], cl, true, [2]⟩) fun c hc => hmem c (Or.inl hc)
  have ho₂ : xrun 1 ⟨[], cl, true, [2]⟩ (obsEvs 2 b.acqBefore) = some ⟨[], cl, true, [2]⟩ :=
    xrun_obsEvs (s := ⟨[], cl, true, [2]⟩) fun c hc => hmem c (Or.inr hc)
  have h₁ : xrun 1 ⟨[], cl, true, [2]⟩ (acqEvs 1 a.held) = some ⟨pushAll 1 a.held [], cl, true, [2]⟩ :=
    xrun_acqEvs (s := ⟨[], cl, true, [2]⟩) hda (by intro p _ e he; cases he)
  have h₂ : xrun 1 ⟨pushAll 1 a.held [], cl, true, [2]⟩ (acqEvs 2 b.held) = some (racyState a b) :=
    xrun_acqEvs (s := ⟨pushAll 1 a.held [], cl, true, [2]⟩) hdb (by
      intro p hp e he hl
      rcases pushAll_mem he with he | ⟨ht, hm⟩
      · cases he
      · have := not_commonLock_shared hcl (l := p.1) (m₁ := e.2.2) (m₂ := p.2) (by rw [← hl]; exact hm) hp
        exact ⟨by rw [ht]; decide, this.2, this.1⟩)
  simp only [racyPre, List.append_assoc, List.cons_append, List.nil_append, xrun, xstep, XState.init]
  simp only [beq_self_eq_true, Bool.not_false, Bool.and_self, if_true, Option.bind_some]
  rw [xrun_append, h₀, Option.bind_some, xrun_append, ho₁, Option.bind_some, xrun_append, ho₂, Option.bind_some,
    xrun_append, h₁, Option.bind_some, h₂]

theorem racyExec_get {a b : Access} {k : Nat} {e : XEv} (h : (racyExec a b)[k]? = some e) :
    (k < (racyPre a b).length ∧ e ∈ racyPre a b) ∨ (k = (racyPre a b).length ∧ e = XEv.acc 1 a)
    ∨ (k = (racyPre a b).length + 1 ∧ e = XEv.acc 2 b) := by
  unfold racyExec at h
  by_cases hk : k < (racyPre a b).length
  · rw [List.getElem?_append_left hk] at h
    exact Or.inl ⟨hk, List.mem_of_getElem? h⟩
  · rw [List.getElem?_append_right (Nat.le_of_not_lt hk)] at h
    generalize hd : k - (racyPre a b).length = d at h
    match d, h with
    | 0, h => simp at h; exact Or.inr (Or.inl ⟨by omega, h.symm⟩)
    | 1, h => simp at h; exact Or.inr (Or.inr ⟨by omega, h.symm⟩)
    | d + 2, h => simp at h

theorem racyExec_at_a {a b : Access} : (racyExec a b)[(racyPre a b).length]? = some (XEv.acc 1 a) := by
  unfold racyExec; rw [List.getElem?_append_right (Nat.le_refl _)]; simp

theorem racyExec_at_b {a b : Access} : (racyExec a b)[(racyPre a b).length + 1]? = some (XEv.acc 2 b) := by
  unfold racyExec; rw [List.getElem?_append_right (Nat.le_add_right _ _)]; simp

/-- **Unordered ⇒ a racy execution.** -/
theorem unordered_pair_races {a b : Access} (hno : ¬ ordered a b)
    (hqa : ∀ c ∈ a.relAfter, c ∉ a.acqBefore) (hqb : ∀ c ∈ b.relAfter, c ∉ b.acqBefore)
    (hda : (a.held.map Prod.fst).Nodup) (hdb : (b.held.map Prod.fst).Nodup) :
    ∃ (ρ : Nat → Nat) (sf : XState), xrun 1 XState.init (racyExec a b) = some sf
      ∧ Conforms 1 ρ [a, b] (racyExec a b)
      ∧ (racyExec a b)[(racyPre a b).length]? = some (XEv.acc 1 a)
      ∧ (racyExec a b)[(racyPre a b).length + 1]? = some (XEv.acc 2 b)
      ∧ ¬ HB (racyExec a b) (racyPre a b).length ((racyPre a b).length + 1)
      ∧ ¬ HB (racyExec a b) ((racyPre a b).length + 1) (racyPre a b).length := by
  have hpa : a.phase ≠ Phase.init := fun h => hno (Or.inl h)
  have hpb : b.phase ≠ Phase.init := fun h => hno (Or.inr (Or.inl h))
  have hro : ¬ (a.role ≠ 0 ∧ a.role = b.role) := fun h => hno (Or.inr (Or.inr (Or.inl h)))
  have hcl : ¬ commonLock a b := fun h => hno (Or.inr (Or.inr (Or.inr (Or.inl h))))
  have hab : ¬ closeEdge a b := fun h => hno (Or.inr (Or.inr (Or.inr (Or.inr (Or.inl h)))))
  have hba : ¬ closeEdge b a := fun h => hno (Or.inr (Or.inr (Or.inr (Or.inr (Or.inr h)))))
  have hpre := racyPre_run hcl hda hdb
  have hrun : xrun 1 XState.init (racyExec a b) = some (racyState a b) := by
    unfold racyExec
    rw [xrun_append, hpre]
    simp [xrun, xstep, racyState]
  have hstA : stAt 1 (racyExec a b) (racyPre a b).length = some (racyState a b) := by
    unfold stAt racyExec
    rw [List.take_left' rfl]; exact hpre
  have hstB : stAt 1 (racyExec a b) ((racyPre a b).length + 1) = some (racyState a b) := by
    rw [stAt_succ racyExec_at_a hstA]
    simp [xstep]
  refine ⟨fun r => if r = a.role then 1 else 2, racyState a b, hrun, ?_, racyExec_at_a, racyExec_at_b, ?_, ?_⟩
  · refine ⟨?_, ?_, ?_, ?_, ?_, ?_⟩
    · intro k t x h
      rcases racyExec_get h with ⟨_, hm⟩ | ⟨_, he⟩ | ⟨_, he⟩
      · exact absurd rfl ((racyPre_plain hm).1 t x)
      · cases he; simp
      · cases he; simp
    · intro k t x s h hs p hp
      rcases racyExec_get h with ⟨_, hm⟩ | ⟨hk, he⟩ | ⟨hk, he⟩
      · exact absurd rfl ((racyPre_plain hm).1 t x)
      · cases he; subst hk; rw [hstA] at hs; cases hs
        exact pushAll_keeps (pushAll_has hp)
      · cases he; subst hk; rw [hstB] at hs; cases hs
        exact pushAll_has hp
    · intro k t x s h _ hph
      rcases racyExec_get h with ⟨_, hm⟩ | ⟨_, he⟩ | ⟨_, he⟩
      · exact absurd rfl ((racyPre_plain hm).1 t x)
      · cases he; exact absurd hph hpa
      · cases he; exact absurd hph hpb
    · intro k t x h hr
      rcases racyExec_get h with ⟨_, hm⟩ | ⟨_, he⟩ | ⟨_, he⟩
      · exact absurd rfl ((racyPre_plain hm).1 t x)
      · cases he; simp
      · cases he
        have : b.role ≠ a.role := fun heq => hro ⟨by rw [← heq]; exact hr, heq.symm⟩
        simp [this]
    · intro k t x h c hc p t' hp
      rcases racyExec_get hp with ⟨_, hm⟩ | ⟨_, he⟩ | ⟨_, he⟩
      · -- the only closes are of channels one of the rows wants observed: none of them is in a `relAfter`
        have hcc := (racyPre_plain hm).2 t' c rfl
        rcases racyExec_get h with ⟨_, hm'⟩ | ⟨_, he⟩ | ⟨_, he⟩
        · exact absurd rfl ((racyPre_plain hm').1 t x)
        · cases he
          rcases hcc with hcc | hcc
          · exact absurd hcc (hqa c hc)
          · exact absurd ⟨c, hc, hcc⟩ hab
        · cases he
          rcases hcc with hcc | hcc
          · exact absurd ⟨c, hc, hcc⟩ hba
          · exact absurd hcc (hqb c hc)
      · cases he
      · cases he
    · intro k t x h c hc
      rcases racyExec_get h with ⟨_, hm⟩ | ⟨hk, he⟩ | ⟨hk, he⟩
      · exact absurd rfl ((racyPre_plain hm).1 t x)
      · cases he
        obtain ⟨p, hp⟩ := List.mem_iff_getElem?.mp (racyPre_obs.1 c hc)
        have hlt : p < (racyPre a b).length := (List.getElem?_eq_some_iff.mp hp).1
        exact ⟨p, by omega, by unfold racyExec; rw [List.getElem?_append_left hlt]; exact hp⟩
      · cases he
        obtain ⟨p, hp⟩ := List.mem_iff_getElem?.mp (racyPre_obs.2 c hc)
        have hlt : p < (racyPre a b).length := (List.getElem?_eq_some_iff.mp hp).1
        exact ⟨p, by omega, by unfold racyExec; rw [List.getElem?_append_left hlt]; exact hp⟩
  · intro hb
    obtain ⟨p, e, h1, h2, h3, h4⟩ := hb_needs_sync hb racyExec_at_a racyExec_at_b (by simp [XEv.thr])
    have : p = (racyPre a b).length := by omega
    subst this
    rw [racyExec_at_a] at h3; cases h3; cases h4
  · intro hb
    have := hb_lt hb
    omega

/-- a table with more rows accepts the executions of a smaller one -/
theorem conforms_mono {cr : Nat} {ρ : Nat → Nat} {t₁ t₂ : List Access} {es : List XEv} (hsub : ∀ x ∈ t₁, x ∈ t₂)
    (h : Conforms cr ρ t₁ es) : Conforms cr ρ t₂ es :=
  ⟨fun k t a he => hsub a (h.mem k t a he), h.held, h.init, h.role, h.rel, h.acq⟩

/-- Data-race freedom of the executions of a table: in every execution that conforms to it, any two
conflicting accesses by different goroutines are ordered by happens-before, one way or the other. -/
def NoRace (tbl : List Access) : Prop :=
  ∀ (cr : Nat) (ρ : Nat → Nat) (es : List XEv) (sf : XState), xrun cr XState.init es = some sf →
    Conforms cr ρ tbl es → ∀ (i j t₁ t₂ : Nat) (a b : Access), es[i]? = some (XEv.acc t₁ a) →
    es[j]? = some (XEv.acc t₂ b) → t₁ ≠ t₂ → conflict a b → HB es i j ∨ HB es j i

/-- the side condition on rows: each lock named once, no channel both closed after and observed before -/
def WfRow (a : Access) : Prop := (∀ c ∈ a.relAfter, c ∉ a.acqBefore) ∧ (a.held.map Prod.fst).Nodup

def wfRowB (a : Access) : Bool :=
  a.relAfter.all (fun c => !a.acqBefore.contains c) && decide ((a.held.map Prod.fst).Nodup)

theorem wfRowB_iff (a : Access) : wfRowB a = true ↔ WfRow a := by
  simp [wfRowB, WfRow]

theorem raceFree_of_noRace {tbl : List Access} (hwf : ∀ a ∈ tbl, WfRow a) (h : NoRace tbl) : raceFree tbl := by
  intro a ha b hb hcf
  refine Classical.byContradiction fun hno => ?_
  obtain ⟨ρ, sf, hrun, hconf, hia, hib, hn₁, hn₂⟩ :=
    unordered_pair_races hno (hwf a ha).1 (hwf b hb).1 (hwf a ha).2 (hwf b hb).2
  have hc : Conforms 1 ρ tbl (racyExec a b) := conforms_mono (by
    intro x hx
    simp only [List.mem_cons, List.not_mem_nil, or_false] at hx
    rcases hx with rfl | rfl
    · exact ha
    · exact hb) hconf
  rcases h 1 ρ _ sf hrun hc _ _ 1 2 a b hia hib (by decide) hcf with h | h
  · exact hn₁ h
  · exact hn₂ h

/-! ### example rows and executions (used by the non-vacuity examples of `PropsExec.lean`) -/

/-- the writer/reader pair of one RWMutex on two goroutines, after publication -/
def exW : Access := ⟨0, .W, 0, [(0, .excl)], .live, 0, [], []⟩
def exR : Access := ⟨0, .R, 1, [(0, .shared)], .live, 0, [], []⟩
def exLocked : List XEv :=
  [.pub 1, .get 2, .acq 1 0 .excl, .acc 1 exW, .rel 1 0 .excl, .acq 2 0 .shared, .acc 2 exR]

/-- constructor phase (before publication and after the join), channel-close edge and a role -/
def exInit : Access := ⟨0, .W, 0, [], .init, 0, [], []⟩
def exRel : Access := ⟨0, .W, 1, [], .live, 5, [7], []⟩
def exAcq : Access := ⟨0, .R, 2, [], .live, 0, [], [7]⟩
def exMixed : List XEv :=
  [.acc 1 exInit, .pub 1, .get 2, .acc 1 exRel, .acc 1 exRel, .close 1 7, .obs 2 7, .acc 2 exAcq,
   .leave 2, .join 1, .acc 1 exInit]

/-- the pre-fix `genID` row: a write under `RLock`, and two goroutines doing it together -/
def exShW : Access := ⟨0, .W, 0, [(0, .shared)], .live, 0, [], []⟩
def exRacy : List XEv :=
  [.pub 1, .get 2, .acq 1 0 .shared, .acq 2 0 .shared, .acc 1 exShW, .acc 2 exShW]

end ScVerif.C11
