import ScVerif.C11.Lockset
/-! Reflection lemmas: the executable checks decide exactly the Prop-level specification; general
facts about `raceFree` that hold for every table. -/
namespace ScVerif.C11

theorem conflictB_iff (a b : Access) : conflictB a b = true ↔ conflict a b := by
  simp [conflictB, conflict]

theorem commonLockB_iff (a b : Access) : commonLockB a b = true ↔ commonLock a b := by
  simp only [commonLockB, commonLock, List.any_eq_true, Bool.and_eq_true, Bool.or_eq_true, beq_iff_eq]
  constructor
  · rintro ⟨⟨l, m₁⟩, hp, ⟨l', m₂⟩, hq, hl, hm⟩
    simp only at hl hm
    subst hl
    exact ⟨l, m₁, m₂, hp, hq, hm⟩
  · rintro ⟨l, m₁, m₂, hp, hq, hm⟩
    exact ⟨(l, m₁), hp, (l, m₂), hq, rfl, hm⟩

theorem closeEdgeB_iff (a b : Access) : closeEdgeB a b = true ↔ closeEdge a b := by
  simp [closeEdgeB, closeEdge]

theorem orderedB_iff (a b : Access) : orderedB a b = true ↔ ordered a b := by
  simp only [orderedB, ordered, Bool.or_eq_true, Bool.and_eq_true, beq_iff_eq, bne_iff_ne,
    commonLockB_iff, closeEdgeB_iff, or_assoc]

theorem pairOkB_iff (a b : Access) : pairOkB a b = true ↔ (conflict a b → ordered a b) := by
  simp only [pairOkB, Bool.or_eq_true, Bool.not_eq_true', ← orderedB_iff, ← conflictB_iff]
  cases conflictB a b <;> simp

theorem raceFreeB_iff (tbl : List Access) : raceFreeB tbl = true ↔ raceFree tbl := by
  simp only [raceFreeB, raceFree, List.all_eq_true, pairOkB_iff]

instance (tbl : List Access) : Decidable (raceFree tbl) :=
  decidable_of_iff _ (raceFreeB_iff tbl)

theorem conflict_symm {a b : Access} (h : conflict a b) : conflict b a :=
  ⟨h.1.symm, h.2.symm⟩

theorem commonLock_symm {a b : Access} : commonLock a b → commonLock b a := by
  rintro ⟨l, m₁, m₂, ha, hb, hm⟩
  exact ⟨l, m₂, m₁, hb, ha, hm.symm⟩

theorem ordered_symm {a b : Access} (h : ordered a b) : ordered b a := by
  rcases h with h | h | h | h | h | h
  · exact Or.inr (Or.inl h)
  · exact Or.inl h
  · exact Or.inr (Or.inr (Or.inl ⟨h.2 ▸ h.1, h.2.symm⟩))
  · exact Or.inr (Or.inr (Or.inr (Or.inl (commonLock_symm h))))
  · exact Or.inr (Or.inr (Or.inr (Or.inr (Or.inr h))))
  · exact Or.inr (Or.inr (Or.inr (Or.inr (Or.inl h))))

/-- The cheaper check (live writes against everything) decides the same discipline. -/
theorem raceFreeW_iff (tbl : List Access) : raceFreeW tbl = true ↔ raceFree tbl := by
  constructor
  · intro h a ha b hb hc
    simp only [raceFreeW, List.all_eq_true, List.mem_filter, Bool.and_eq_true, beq_iff_eq, and_imp] at h
    cases hpa : a.phase with
    | init => exact Or.inl hpa
    | live =>
      cases hpb : b.phase with
      | init => exact Or.inr (Or.inl hpb)
      | live =>
        rcases hc.2 with hk | hk
        · exact (pairOkB_iff a b).mp (h a ha hk hpa b hb) hc
        · exact ordered_symm ((pairOkB_iff b a).mp (h b hb hk hpb a ha) (conflict_symm hc))
  · intro h
    simp only [raceFreeW, List.all_eq_true, List.mem_filter, Bool.and_eq_true, beq_iff_eq, and_imp]
    intro a ha _ _ b hb
    exact (pairOkB_iff a b).mpr (h a ha b hb)

/-- Removing rows (or reordering, or duplicating) cannot break the discipline. -/
theorem raceFree_of_subset {t₁ t₂ : List Access} (hsub : ∀ a ∈ t₁, a ∈ t₂) (h : raceFree t₂) :
    raceFree t₁ :=
  fun a ha b hb hc => h a (hsub a ha) b (hsub b hb) hc

theorem raceFree_filter (p : Access → Bool) {t : List Access} (h : raceFree t) :
    raceFree (t.filter p) :=
  raceFree_of_subset (fun _ ha => (List.mem_filter.mp ha).1) h

/-- Tables compose: two race-free tables whose cross pairs are fine give a race-free union. -/
theorem raceFree_append {t₁ t₂ : List Access} (h₁ : raceFree t₁) (h₂ : raceFree t₂)
    (hx : ∀ a ∈ t₁, ∀ b ∈ t₂, conflict a b → ordered a b) : raceFree (t₁ ++ t₂) := by
  intro a ha b hb hc
  rcases List.mem_append.mp ha with ha | ha <;> rcases List.mem_append.mp hb with hb | hb
  · exact h₁ a ha b hb hc
  · exact hx a ha b hb hc
  · exact ordered_symm (hx b hb a ha (conflict_symm hc))
  · exact h₂ a ha b hb hc

/-- Tables over disjoint fields never interact. -/
theorem raceFree_append_disjoint {t₁ t₂ : List Access} (h₁ : raceFree t₁) (h₂ : raceFree t₂)
    (hd : ∀ a ∈ t₁, ∀ b ∈ t₂, a.field ≠ b.field) : raceFree (t₁ ++ t₂) :=
  raceFree_append h₁ h₂ (fun a ha b hb hc => absurd hc.1 (hd a ha b hb))

/-- A row violating the discipline with itself (a write executed by two goroutines under at most a
shared lock) refutes `raceFree` for every table containing it. -/
theorem not_raceFree_of_self {t : List Access} {a : Access} (ha : a ∈ t) (hw : a.kind = Kind.W)
    (hno : ¬ ordered a a) : ¬ raceFree t :=
  fun h => hno (h a ha a ha ⟨rfl, Or.inl hw⟩)

/-- The classical guard discipline, for every table: if each field has a guarding mutex that every
post-construction access to the field holds, and every write holds it exclusively, then the table is
race free. -/
theorem raceFree_of_guarded (t : List Access) (guard : Nat → Nat)
    (hr : ∀ a ∈ t, a.phase = Phase.live → ∃ m, (guard a.field, m) ∈ a.held)
    (hw : ∀ a ∈ t, a.phase = Phase.live → a.kind = Kind.W → (guard a.field, LMode.excl) ∈ a.held) :
    raceFree t := by
  intro a ha b hb hc
  cases hpa : a.phase with
  | init => exact Or.inl hpa
  | live =>
    cases hpb : b.phase with
    | init => exact Or.inr (Or.inl hpb)
    | live =>
      refine Or.inr (Or.inr (Or.inr (Or.inl ?_)))
      obtain ⟨hf, hk⟩ := hc
      rcases hk with hk | hk
      · obtain ⟨m, hm⟩ := hr b hb hpb
        exact ⟨guard a.field, LMode.excl, m, hw a ha hpa hk, hf ▸ hm, Or.inl rfl⟩
      · obtain ⟨m, hm⟩ := hr a ha hpa
        exact ⟨guard a.field, m, LMode.excl, hm, hf ▸ hw b hb hpb hk, Or.inr rfl⟩

/-- Conversely two shared holders of one RWMutex are not ordered by it: a write under `RLock` only,
with no other ordering, is a violation (this is the shape of the `genID` defect). -/
theorem not_ordered_shared_self (a : Access) (hp : a.phase = Phase.live) (hr : a.role = 0)
    (hh : ∀ p ∈ a.held, p.2 = LMode.shared) (hc : ∀ c ∈ a.relAfter, c ∉ a.acqBefore) :
    ¬ ordered a a := by
  rintro (h | h | h | h | h | h)
  · simp [hp] at h
  · simp [hp] at h
  · exact h.1 hr
  · obtain ⟨l, m₁, m₂, h₁, h₂, hm⟩ := h
    rcases hm with hm | hm
    · have := hh _ h₁; simp [hm] at this
    · have := hh _ h₂; simp [hm] at this
  · obtain ⟨c, h₁, h₂⟩ := h; exact hc c h₁ h₂
  · obtain ⟨c, h₁, h₂⟩ := h; exact hc c h₁ h₂

end ScVerif.C11
