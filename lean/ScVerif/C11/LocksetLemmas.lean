import ScVerif.C11.Lockset
/-! Reflection lemmas: the executable checks decide exactly the Prop-level specification; general
facts about `raceFree` that hold for every table. -/
namespace ScVerif.C11

theorem conflictB_iff (a b : Access) : conflictB a b = true ↔ conflict a b := by
  simp [conflictB, conflict]

theorem commonLockB_iff (a b : Access) : commonLockB a b = true ↔ commonLock a b := by
  simp only [commonLockB, commonLock, List.any_eq_true, Bool.and_eq_true, Bool.or_eq_true, beq_iff_eq]
  constructor
  · rintro ⟨⟨l, m₁⟩, hp, ⟨l', m₂⟩, hq, hl, hm⟩
    simp only at hl hm
    subst hl
    exact ⟨l, m₁, m₂, hp, hq, hm⟩
  · rintro ⟨l, m₁, m₂, hp, hq, hm⟩
    exact ⟨(l, m₁), hp, (l, m₂), hq, rfl, hm⟩

theorem closeEdgeB_iff (a b : Access) : closeEdgeB a b = true ↔ closeEdge a b := by
  simp [closeEdgeB, closeEdge]

theorem orderedB_iff (a b : Access) : orderedB a b = true ↔ ordered a b := by
  simp only [orderedB, ordered, Bool.or_eq_true, Bool.and_eq_true, beq_iff_eq, bne_iff_ne,
    commonLockB_iff, closeEdgeB_iff, or_assoc]

theorem pairOkB_iff (a b : Access) : pairOkB a b = true ↔ (conflict a b → ordered a b) := by
  simp only [pairOkB, Bool.or_eq_true, Bool.not_eq_true', ← orderedB_iff, ← conflictB_iff]
  cases conflictB a b <;> simp

theorem raceFreeB_iff (tbl : List Access) : raceFreeB tbl = true ↔ raceFree tbl := by
  simp only [raceFreeB, raceFree, List.all_eq_true, pairOkB_iff]

instance (tbl : List Access) : Decidable (raceFree tbl) :=
  decidable_of_iff _ (raceFreeB_iff tbl)

theorem conflict_symm {a b : Access} (h : conflict a b) : conflict b a :=
  ⟨h.1.symm, h.2.symm⟩

theorem commonLock_symm {a b : Access} : commonLock a b → commonLock b a := by
  rintro ⟨l, m₁, m₂, ha, hb, hm⟩
  exact ⟨l, m₂, m₁, hb, ha, hm.symm⟩

theorem ordered_symm {a b : Access} (h : ordered a b) : ordered b a := by
  rcases h with h | h | h | h | h | h
  · exact Or.inr (Or.inl h)
  · exact Or.inl h
  · exact Or.inr (Or.inr (Or.inl ⟨h.2 ▸ h.1, h.2.symm⟩))
  · exact Or.inr (Or.inr (Or.inr (Or.inl (commonLock_symm h))))
  · exact Or.inr (Or.inr (Or.inr (Or.inr (Or.inr h))))
  · exact Or.inr (Or.inr (Or.inr (Or.inr (Or.inl h))))

/-- The cheaper check (live writes against everything) decides the same discipline. -/
theorem raceFreeW_iff (tbl : List Access) : raceFreeW tbl = true ↔ raceFree tbl := by
  constructor
  · intro h a ha b hb hc
    simp only [raceFreeW, List.all_eq_true, List.mem_filter, Bool.and_eq_true, beq_iff_eq, and_imp] at h
    cases hpa : a.phase with
    | init => exact Or.inl hpa
    | live =>
      cases hpb : b.phase with
      | init => exact Or.inr (Or.inl hpb)
      | live =>
        rcases hc.2 with hk | hk
        · exact (pairOkB_iff a b).mp (h a ha hk hpa b hb) hc
        · exact ordered_symm ((pairOkB_iff b a).mp (h b hb hk hpb a ha) (conflict_symm hc))
  · intro h
    simp only [raceFreeW, List.all_eq_true, List.mem_filter, Bool.and_eq_true, beq_iff_eq, and_imp]
    intro a ha _ _ b hb
    exact (pairOkB_iff a b).mpr (h a ha b hb)

/-- Removing rows (or reordering, or duplicating) cannot break the discipline. -/
theorem raceFree_of_subset {t₁ t₂ : List Access} (hsub : ∀ a ∈ t₁, a ∈ t₂) (h : raceFree t₂) :
    raceFree t₁ :=
  fun a ha b hb hc => h a (hsub a ha) b (hsub b hb) hc

theorem raceFree_filter (p : Access → Bool) {t : List Access} (h : raceFree t) :
    raceFree (t.filter p) :=
  raceFree_of_subset (fun _ ha => (List.mem_filter.mp ha).1) h

/-- Tables compose: two race-free tables whose cross pairs are fine give a race-free union. -/
theorem raceFree_append {t₁ t₂ : List Access} (h₁ : raceFree t₁) (h₂ : raceFree t₂)
    (hx : ∀ a ∈ t₁, ∀ b ∈ t₂, conflict a b → ordered a b) : raceFree (t₁ ++ t₂) := by
  intro a ha b hb hc
  rcases List.mem_append.mp ha with ha | ha <;> rcases List.mem_append.mp hb with hb | hb
  · exact h₁ a ha b hb hc
  · exact hx a ha b hb hc
  · exact ordered_symm (hx b hb a ha (conflict_symm hc))
  · exact h₂ a ha b hb hc

/-- Tables over disjoint fields never interact. -/
theorem raceFree_append_disjoint {t₁ t₂ : List Access} (h₁ : raceFree t₁) (h₂ : raceFree t₂)
    (hd : ∀ a ∈ t₁, ∀ b ∈ t₂, a.field ≠ b.field) : raceFree (t₁ ++ t₂) :=
  raceFree_append h₁ h₂ (fun a ha b hb hc => absurd hc.1 (hd a ha b hb))

/-- A row violating the discipline with itself (a write executed by two goroutines under at most a
shared lock) refutes `raceFree` for every table containing it. -/
theorem not_raceFree_of_self {t : List Access} {a : Access} (ha : a ∈ t) (hw : a.kind = Kind.W)
    (hno : ¬ ordered a a) : ¬ raceFree t :=
  fun h => hno (h a ha a ha ⟨rfl, Or.inl hw⟩)

/-- The classical guard discipline, for every table: if each field has a guarding mutex that every
post-construction access to the field holds, and every write holds it exclusively, then the table is
race free. -/
theorem raceFree_of_guarded (t : List Access) (guard : Nat → Nat)
    (hr : ∀ a ∈ t, a.phase = Phase.live → ∃ m, (guard a.field, m) ∈ a.held)
    (hw : ∀ a ∈ t, a.phase = Phase.live → a.kind = Kind.W → (guard a.field, LMode.excl) ∈ a.held) :
    raceFree t := by
  intro a ha b hb hc
  cases hpa : a.phase with
  | init => exact Or.inl hpa
  | live =>
    cases hpb : b.phase with
    | init => exact Or.inr (Or.inl hpb)
    | live =>
      refine Or.inr (Or.inr (Or.inr (Or.inl ?_)))
      obtain ⟨hf, hk⟩ := hc
      rcases hk with hk | hk
      · obtain ⟨m, hm⟩ := hr b hb hpb
        exact ⟨guard a.field, LMode.excl, m, hw a ha hpa hk, hf ▸ hm, Or.inl rfl⟩
      · obtain ⟨m, hm⟩ := hr a ha hpa
        exact ⟨guard a.field, m, LMode.excl, hm, hf ▸ hw b hb hpb hk, Or.inr rfl⟩

/-- Conversely two shared holders of one RWMutex are not ordered by it: a write under `RLock` only,
with no other ordering, is a violation (this is the shape of the `genID` defect). -/
theorem not_ordered_shared_self (a : Access) (hp : a.phase = Phase.live) (hr : a.role = 0)
    (hh : ∀ p ∈ a.held, p.2 = LMode.shared) (hc : ∀ c ∈ a.relAfter, c ∉ a.acqBefore) :
    ¬ ordered a a := by
  rintro (h | h | h | h | h | h)
  · simp [hp] at h
  · simp [hp] at h
  · exact h.1 hr
  · obtain ⟨l, m₁, m₂, h₁, h₂, hm⟩ := h
    rcases hm with hm | hm
    · have := hh _ h₁; simp [hm] at this
    · have := hh _ h₂; simp [hm] at this
  · obtain ⟨c, h₁, h₂⟩ := h; exact hc c h₁ h₂
  · obtain ⟨c, h₁, h₂⟩ := h; exact hc c h₁ h₂

/-! ### The grouped decision (what the kernel evaluates on the extracted table) -/

theorem goRuns_sound (rest : List Access) : ∀ (cur : List Access) (f : Nat),
    (∀ x ∈ cur, x.field = f) → goRuns cur rest = true →
    (cur ≠ [] → ∀ y ∈ rest, f ≤ y.field) ∧ raceFree (cur ++ rest) := by
  induction rest with
  | nil =>
    intro cur f _ h
    simp only [goRuns] at h
    exact ⟨fun _ y hy => by simp at hy, by simpa using (raceFreeW_iff cur).mp h⟩
  | cons b rest ih =>
    intro cur f hf h
    cases cur with
    | nil =>
      simp only [goRuns] at h
      have := ih [b] b.field (by simp) h
      exact ⟨fun hne => absurd rfl hne, by simpa using this.2⟩
    | cons a cur =>
      simp only [goRuns] at h
      have haf : a.field = f := hf a (by simp)
      split at h
      · rename_i hba
        have hba : b.field = a.field := by simpa using hba
        have := ih (b :: a :: cur) f (by
          intro x hx
          rcases List.mem_cons.mp hx with hx | hx
          · rw [hx, hba, haf]
          · exact hf x hx) h
        refine ⟨fun _ y hy => ?_, ?_⟩
        · rcases List.mem_cons.mp hy with hy | hy
          · rw [hy, hba, haf]; exact Nat.le_refl _
          · exact this.1 (by simp) y hy
        · refine raceFree_of_subset ?_ this.2
          intro x hx
          simp only [List.mem_append, List.mem_cons] at hx ⊢
          rcases hx with (hx | hx) | hx | hx
          · exact Or.inl (Or.inr (Or.inl hx))
          · exact Or.inl (Or.inr (Or.inr hx))
          · exact Or.inl (Or.inl hx)
          · exact Or.inr hx
      · simp only [Bool.and_eq_true, Nat.blt_eq] at h
        obtain ⟨⟨hlt, hw⟩, hr⟩ := h
        have := ih [b] b.field (by simp) hr
        have hge : ∀ y ∈ b :: rest, f < y.field := by
          intro y hy
          rcases List.mem_cons.mp hy with hy | hy
          · rw [hy, ← haf]; exact hlt
          · exact Nat.lt_of_lt_of_le (haf ▸ hlt) (this.1 (by simp) y hy)
        refine ⟨fun _ y hy => Nat.le_of_lt (hge y hy), ?_⟩
        refine raceFree_append_disjoint ((raceFreeW_iff _).mp hw) (by simpa using this.2) ?_
        intro x hx y hy hxy
        have := hge y hy
        rw [← hxy, hf x hx] at this
        exact Nat.lt_irrefl _ this

/-- the grouped decision is sound for every table -/
theorem raceFreeG_sound (tbl : List Access) (h : raceFreeG tbl = true) : raceFree tbl := by
  simpa using (goRuns_sound tbl [] 0 (by simp) h).2

theorem goRuns_complete (rest : List Access) : ∀ (cur : List Access) (f : Nat),
    (∀ x ∈ cur, x.field = f) → (cur ≠ [] → ∀ y ∈ rest, f ≤ y.field) → sortedByField rest →
    raceFree (cur ++ rest) → goRuns cur rest = true := by
  induction rest with
  | nil =>
    intro cur f _ _ _ h
    simp only [goRuns]
    exact (raceFreeW_iff cur).mpr (by simpa using h)
  | cons b rest ih =>
    intro cur f hf hge hs h
    obtain ⟨hb, hs'⟩ := hs
    cases cur with
    | nil =>
      simp only [goRuns]
      exact ih [b] b.field (by simp) (fun _ y hy => hb y hy) hs' (by simpa using h)
    | cons a cur =>
      simp only [goRuns]
      have haf : a.field = f := hf a (by simp)
      split
      · rename_i hba
        have hba : b.field = a.field := by simpa using hba
        refine ih (b :: a :: cur) f ?_ ?_ hs' ?_
        · intro x hx
          rcases List.mem_cons.mp hx with hx | hx
          · rw [hx, hba, haf]
          · exact hf x hx
        · intro _ y hy
          have := hb y hy
          rw [hba, haf] at this
          exact this
        · refine raceFree_of_subset ?_ h
          intro x hx
          simp only [List.mem_append, List.mem_cons] at hx ⊢
          rcases hx with (hx | hx | hx) | hx
          · exact Or.inr (Or.inl hx)
          · exact Or.inl (Or.inl hx)
          · exact Or.inl (Or.inr hx)
          · exact Or.inr (Or.inr hx)
      · rename_i hba
        have hne : b.field ≠ a.field := by simpa using hba
        have hle : a.field ≤ b.field := by
          have := hge (by simp) b (by simp)
          rw [← haf] at this
          exact this
        simp only [Bool.and_eq_true, Nat.blt_eq]
        refine ⟨⟨Nat.lt_of_le_of_ne hle (fun h' => hne h'.symm), ?_⟩, ?_⟩
        · exact (raceFreeW_iff _).mpr (raceFree_of_subset (fun x hx => List.mem_append_left _ hx) h)
        · refine ih [b] b.field (by simp) (fun _ y hy => hb y hy) hs' ?_
          exact raceFree_of_subset (fun x hx => List.mem_append_right _ (by simpa using hx)) h

/-- on a table in the generator's order the grouped decision is also complete -/
theorem raceFreeG_complete (tbl : List Access) (hs : sortedByField tbl) (h : raceFree tbl) :
    raceFreeG tbl = true :=
  goRuns_complete tbl [] 0 (by simp) (fun h => absurd rfl h) hs (by simpa using h)

theorem sortedByFieldB_iff (t : List Access) : sortedByFieldB t = true ↔ sortedByField t := by
  induction t with
  | nil => simp [sortedByFieldB, sortedByField]
  | cons a rest ih =>
    simp only [sortedByFieldB, sortedByField, Bool.and_eq_true, List.all_eq_true, Nat.ble_eq, ih]

/-- Non-vacuity of a table, decided on neighbouring rows only (the generator sorts by field, then by
function, so a field accessed from two functions shows up as two adjacent rows). -/
def adjacentLiveConflict : List Access → Bool
  | a :: b :: rest =>
    (conflictB a b && a.phase == Phase.live && b.phase == Phase.live && a.fn != b.fn)
      || adjacentLiveConflict (b :: rest)
  | _ => false

theorem exists_live_conflict (tbl : List Access) (h : adjacentLiveConflict tbl = true) :
    ∃ a ∈ tbl, ∃ b ∈ tbl, conflict a b ∧ a.phase = Phase.live ∧ b.phase = Phase.live ∧ a.fn ≠ b.fn := by
  induction tbl with
  | nil => simp [adjacentLiveConflict] at h
  | cons a t ih =>
    cases t with
    | nil => simp [adjacentLiveConflict] at h
    | cons b rest =>
      simp only [adjacentLiveConflict, Bool.or_eq_true, Bool.and_eq_true, beq_iff_eq, bne_iff_ne] at h
      rcases h with ⟨⟨⟨hc, hpa⟩, hpb⟩, hfn⟩ | h
      · exact ⟨a, by simp, b, by simp, (conflictB_iff a b).mp hc, hpa, hpb, hfn⟩
      · obtain ⟨x, hx, y, hy, hh⟩ := ih h
        exact ⟨x, List.mem_cons_of_mem _ hx, y, List.mem_cons_of_mem _ hy, hh⟩

/-! ### Published (frozen) locations: readers need no lock -/

theorem frozenInB_iff (t : List Access) (f : Nat) : frozenInB t f = true ↔ frozenIn t f := by
  simp only [frozenInB, frozenIn, List.all_eq_true, Bool.or_eq_true, Bool.not_eq_true', beq_iff_eq,
    beq_eq_false_iff_ne, ne_eq]
  constructor
  · intro h a ha hf hk
    rcases h a ha with (h' | h') | h'
    · exact absurd hf h'
    · exact absurd hk h'
    · exact h'
  · intro h a ha
    by_cases hf : a.field = f
    · by_cases hk : a.kind = Kind.W
      · exact Or.inr (h a ha hf hk)
      · exact Or.inl (Or.inr hk)
    · exact Or.inl (Or.inl hf)

/-- Readers of frozen locations can be added to a race-free table at will: whatever function they
sit in, whatever locks they hold or do not hold, whatever goroutine runs them. -/
theorem raceFree_add_readers {t rs : List Access} (h : raceFree t)
    (hr : ∀ r ∈ rs, r.kind = Kind.R ∧ frozenIn t r.field) : raceFree (t ++ rs) := by
  intro a ha b hb hc
  rcases List.mem_append.mp ha with ha | ha <;> rcases List.mem_append.mp hb with hb | hb
  · exact h a ha b hb hc
  · have hbk := (hr b hb).1
    rcases hc.2 with hk | hk
    · exact Or.inl ((hr b hb).2 a ha hc.1 hk)
    · rw [hbk] at hk; cases hk
  · have hak := (hr a ha).1
    rcases hc.2 with hk | hk
    · rw [hak] at hk; cases hk
    · exact Or.inr (Or.inl ((hr a ha).2 b hb hc.1.symm hk))
  · have hak := (hr a ha).1
    have hbk := (hr b hb).1
    rcases hc.2 with hk | hk
    · rw [hak] at hk; cases hk
    · rw [hbk] at hk; cases hk

theorem bareReaderB_iff (r : Access) : bareReaderB r = true ↔ bareReader r := by
  simp [bareReaderB, bareReader, and_assoc]

/-- A race-free table that contains a bare reader of a location contains no live write of it: the
location is frozen (for the `published:` locations: C07 as the extractor sees the library). -/
theorem frozen_of_bareReader {t : List Access} {r : Access} (h : raceFree t) (hr : r ∈ t)
    (hb : bareReader r) : frozenIn t r.field := by
  obtain ⟨_, hp, hro, hh, hrel, hacq⟩ := hb
  intro a ha hf hk
  rcases h a ha r hr ⟨hf, Or.inl hk⟩ with h' | h' | h' | h' | h' | h'
  · exact h'
  · rw [hp] at h'; cases h'
  · exact absurd (h'.2 ▸ hro) h'.1
  · obtain ⟨l, m₁, m₂, _, h₂, _⟩ := h'
    rw [hh] at h₂; cases h₂
  · obtain ⟨c, _, h₂⟩ := h'
    rw [hacq] at h₂; cases h₂
  · obtain ⟨c, h₁, _⟩ := h'
    rw [hrel] at h₁; cases h₁

/-- A live write that holds no lock, has no role and no close edge is unordered with every live access
that is not ordered with it by construction: one such write to a location somebody else reads refutes
the discipline. -/
theorem not_ordered_bare_write {w r : Access} (hwp : w.phase = Phase.live) (hrp : r.phase = Phase.live)
    (hro : w.role = 0) (hh : w.held = []) (hrel : w.relAfter = []) (hacq : w.acqBefore = []) :
    ¬ ordered w r := by
  rintro (h | h | h | h | h | h)
  · rw [hwp] at h; cases h
  · rw [hrp] at h; cases h
  · exact h.1 hro
  · obtain ⟨l, m₁, m₂, h₁, _, _⟩ := h
    rw [hh] at h₁; cases h₁
  · obtain ⟨c, h₁, _⟩ := h
    rw [hrel] at h₁; cases h₁
  · obtain ⟨c, _, h₂⟩ := h
    rw [hacq] at h₂; cases h₂

end ScVerif.C11
