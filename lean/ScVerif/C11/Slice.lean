/-!
C11 — a model of Go's `append` on a slice header, as far as aliasing is concerned.

The `arg:` rows of the table (harness/cmd/c11/args.go) say: `append(a, …)` with a caller-backed `a` is a
WRITE to memory the caller lent.  This file gives that rule its meaning.  A slice is a view
`(arr, len, cap)` of a backing array (cells are numbered from the slice's own start); `append s n`
(n new elements) works in place when `len + n ≤ cap` — it then writes the cells `len … len+n-1` of
`arr`, which lie behind the part the caller can see — and otherwise copies to a new array and leaves
`arr` alone.  (How much capacity a new array gets is the runtime's business and not modelled.)
The driver evaluates `appendWrites` / `appendInPlace`; the harness compares them with the real `append`
for every `0 ≤ len ≤ cap ≤ 7`, `0 ≤ n ≤ 4` (tie `append-aliasing`).
-/
namespace ScVerif.C11

structure Slice where
  arr : Nat
  len : Nat
  cap : Nat
  deriving DecidableEq, Repr

/-- `append` reuses the backing array -/
def appendInPlace (s : Slice) (n : Nat) : Bool := decide (s.len + n ≤ s.cap)

/-- the cells of the EXISTING backing array that `append s n` writes -/
def appendWrites (s : Slice) (n : Nat) : List (Nat × Nat) :=
  if appendInPlace s n then (List.range n).map fun i => (s.arr, s.len + i) else []

/-- the result's header when `append` works in place (otherwise it is a view of a new array) -/
def appendResult (s : Slice) (n : Nat) (fresh : Nat) : Slice :=
  if appendInPlace s n then { s with len := s.len + n } else { arr := fresh, len := s.len + n, cap := s.len + n }

/-- `s[:len(s):len(s)]`: the same elements, no room behind them -/
def Slice.full (s : Slice) : Slice := { s with cap := s.len }

theorem appendWrites_mem {s : Slice} {n : Nat} {c : Nat × Nat} (h : c ∈ appendWrites s n) :
    s.len + n ≤ s.cap ∧ c.1 = s.arr ∧ s.len ≤ c.2 ∧ c.2 < s.len + n := by
  unfold appendWrites appendInPlace at h
  split at h
  · rename_i hle
    have hle' : s.len + n ≤ s.cap := by simpa using hle
    rcases List.mem_map.mp h with ⟨i, hi, rfl⟩
    have : i < n := List.mem_range.mp hi
    exact ⟨hle', rfl, Nat.le_add_right _ _, by simp; omega⟩
  · simp at h

theorem appendWrites_first {s : Slice} {n : Nat} (hn : 0 < n) (h : s.len + n ≤ s.cap) :
    (s.arr, s.len) ∈ appendWrites s n := by
  unfold appendWrites appendInPlace
  simp only [h, decide_true, if_true]
  exact List.mem_map.mpr ⟨0, List.mem_range.mpr hn, by simp⟩

theorem appendWrites_nil_of_no_room {s : Slice} {n : Nat} (h : s.cap < s.len + n) : appendWrites s n = [] := by
  unfold appendWrites appendInPlace
  have : ¬ s.len + n ≤ s.cap := by omega
  simp [this]

end ScVerif.C11
