import ScVerif.C11.Many
import ScVerif.C11.LocksetLemmas
/-!
C11 — property theorems about executions over MANY objects (round 8, `Many.lean`).  The semantics of
`Exec.lean` is one object's view, with the table's per-type lock and channel numbers.  Here any number of
objects (instances of one type or of many) run side by side: an event belongs to one object and steps that
object's state only; happens-before has program order across all objects and the four synchronisation
edges within one object.  The theorems say that checking the lock discipline per object is enough for the
whole program, and that a lock of another instance is worth nothing.
-/
namespace ScVerif.C11

/-- **Per-object discipline ⇒ happens-before in the whole execution.**  For every family of creators, every
list of events over any number of objects that the many-object semantics accepts, every object `o`: if the
events of `o` (and only those — the other objects may do anything the runtime allows) conform to a table
that satisfies the lock discipline, then an access to `o` and a later conflicting access to `o` by another
goroutine are ordered by happens-before of the whole execution. -/
theorem C11_many_objects_discipline_orders {cr : Nat → Nat} {ρ : Nat → Nat} {tbl : List Access} {es : List MEv}
    {Sf : Nat → XState} {o : Nat} (hrf : raceFree tbl) (hv : mrun cr minit es = some Sf)
    (hc : Conforms (cr o) ρ tbl (proj o es)) {p q t₁ t₂ : Nat} {a b : Access} (hpq : p < q)
    (hp : es[p]? = some (o, XEv.acc t₁ a)) (hq : es[q]? = some (o, XEv.acc t₂ b)) (hne : t₁ ≠ t₂)
    (hcf : conflict a b) : MHB es p q :=
  many_discipline_orders hrf hv hc hpq hp hq hne hcf

/-- **No data race on any object**: with one table per object (`tbl o`; instances of one type share theirs),
each satisfying the discipline and each conformed to by its object's events, any two conflicting accesses
to one object by different goroutines, wherever they stand, are ordered one way or the other. -/
theorem C11_many_objects_no_data_race {cr : Nat → Nat} {ρ : Nat → Nat → Nat} {tbl : Nat → List Access}
    {es : List MEv} {Sf : Nat → XState} (hrf : ∀ o, raceFree (tbl o)) (hv : mrun cr minit es = some Sf)
    (hc : ∀ o, Conforms (cr o) (ρ o) (tbl o) (proj o es)) {o p q t₁ t₂ : Nat} {a b : Access}
    (hp : es[p]? = some (o, XEv.acc t₁ a)) (hq : es[q]? = some (o, XEv.acc t₂ b)) (hne : t₁ ≠ t₂)
    (hcf : conflict a b) : MHB es p q ∨ MHB es q p :=
  many_no_data_race hrf hv hc hp hq hne hcf

/-- **Objects are independent**: from any state, a list of events is an execution of the many-object
semantics exactly when, for every object, the events of that object are an execution of the one-object
semantics — no lock, channel or publication of one instance ever allows or refuses a step of another. -/
theorem C11_objects_independent {cr : Nat → Nat} {S : Nat → XState} {es : List MEv} :
    (∃ S', mrun cr S es = some S') ↔ ∀ o, ∃ s, xrun (cr o) (S o) (proj o es) = some s :=
  ⟨fun ⟨S', h⟩ o => ⟨S' o, proj_run o h⟩, mrun_of_proj⟩

/-- **An object's happens-before is the program's**: whatever orders two events in the execution of one
object orders them, at their positions `pos`, in the whole execution (the other objects only add order:
program order runs across objects). -/
theorem C11_projection_hb_is_global_hb (o : Nat) {es : List MEv} {i j : Nat} (h : HB (proj o es) i j) :
    MHB es (pos o es i) (pos o es j) ∧ pos o es i < pos o es j :=
  ⟨hb_lift o h, pos_lt o es (hb_lt h)⟩

/-- the positions are the right ones: the `i`-th event of object `o` stands at `pos o es i`, and every event
of `o` in the whole execution is one of them -/
theorem C11_projection_positions (o : Nat) {es : List MEv} :
    (∀ i x, (proj o es)[i]? = some x → es[pos o es i]? = some (o, x)) ∧
    (∀ p x, es[p]? = some (o, x) → ∃ i, pos o es i = p ∧ (proj o es)[i]? = some x) :=
  ⟨fun _ _ h => pos_get o h, fun _ _ h => pos_surj o h⟩

/-- happens-before between two goroutines in a many-object execution needs a release (unlock, close,
publication, leave) on some object in between; and it follows the execution order -/
theorem C11_many_hb_needs_synchronisation {es : List MEv} {i j : Nat} {e₁ e₂ : MEv} (h : MHB es i j)
    (h₁ : es[i]? = some e₁) (h₂ : es[j]? = some e₂) (hne : e₁.2.thr ≠ e₂.2.thr) :
    i < j ∧ ∃ p e, i ≤ p ∧ p < j ∧ es[p]? = some e ∧ e.2.isRelease = true :=
  ⟨mhb_lt h, mhb_needs_sync h h₁ h₂ hne⟩

/-- **The lock of another instance orders nothing.**  `exOther` is an execution: goroutine 1 writes object 1
while it holds lock 0 of OBJECT 0 (a callee that reaches a second instance of the type while its caller
holds the first one's lock), goroutine 2 writes object 1 under object 1's own lock 0.  Both accesses are
the row `exW` ("write under lock 0, exclusive"), whose table `[exW]` satisfies the discipline — but the
events of object 1 do not conform to it (the lock is not held on the object that is accessed), and the two
writes are unordered both ways. -/
theorem C11_lock_of_another_instance_does_not_order :
    mvalid (fun _ => 0) exOther = true ∧ raceFree [exW] ∧
    exOther[6]? = some (1, XEv.acc 1 exW) ∧ exOther[8]? = some (1, XEv.acc 2 exW) ∧ conflict exW exW ∧
    ¬ Conforms 0 (fun _ => 0) [exW] (proj 1 exOther) ∧ ¬ MHB exOther 6 8 ∧ ¬ MHB exOther 8 6 := by
  refine ⟨by decide, by decide, rfl, rfl, ⟨rfl, Or.inl rfl⟩, ?_, ?_, ?_⟩
  · intro hc
    have := hc.held 3 1 exW ⟨[], [], true, [2, 1]⟩ (by decide) (by decide) (0, .excl) (by decide)
    revert this
    decide
  · exact not_mhb_of_no_sync (e₁ := (1, XEv.acc 1 exW)) (e₂ := (1, XEv.acc 2 exW)) rfl rfl (by decide) (by decide)
  · intro h; have := mhb_lt h; omega

/-- the hypotheses of the first theorem are satisfiable, with two holders of "lock 0" AT THE SAME TIME on
two instances (`exTwo`: positions 5 and 6 acquire lock 0 of objects 0 and 1 exclusively, neither released
before position 9), and the conclusion is the expected chain on object 0: goroutine 1's write at 7 happens
before goroutine 2's write at 12 -/
example : MHB exTwo 7 12 :=
  have ⟨_, hv⟩ := mvalid_run (cr := fun _ => 0) (es := exTwo) (by decide)
  C11_many_objects_discipline_orders (ρ := fun _ => 0) (tbl := [exW]) (o := 0) (t₁ := 1) (t₂ := 2)
    (a := exW) (b := exW) (by decide) hv (conformsB_sound (by decide)) (by decide) (by decide) (by decide)
    (by decide) ⟨rfl, Or.inl rfl⟩

/-- `C11_objects_independent`, used: both projections of `exTwo` are executions, so the interleaving is -/
example : ∃ S', mrun (fun _ => 0) minit exTwo = some S' :=
  C11_objects_independent.mpr fun o =>
    if h0 : o = 0 then by subst h0; exact Option.isSome_iff_exists.mp (by decide)
    else if h1 : o = 1 then by subst h1; exact Option.isSome_iff_exists.mp (by decide)
    else by
      have hp : proj o exTwo = [] := by simp [exTwo, proj, Ne.symm h0, Ne.symm h1]
      exact ⟨minit o, by rw [hp]; rfl⟩

/-- **Whole-program happens-before leaves a goroutine through its own release and enters through the other's own
acquire** — on whatever objects: in every list of events over any number of objects, if position `i` happens
before position `j` and the two events are executed by different goroutines, the goroutine of `i` itself
executes a release (unlock, close, publication, leave; of some object) in `[i, j)` and the goroutine of `j`
itself executes an acquire (lock, observed close, receipt, join; of some object) in `(i, j]`. -/
theorem C11_many_hb_through_own_release_and_acquire {es : List MEv} {i j : Nat} {e₁ e₂ : MEv} (h : MHB es i j)
    (h₁ : es[i]? = some e₁) (h₂ : es[j]? = some e₂) (hne : e₁.2.thr ≠ e₂.2.thr) :
    (∃ p e, i ≤ p ∧ p < j ∧ es[p]? = some e ∧ e.2.isRelease = true ∧ e.2.thr = e₁.2.thr) ∧
    (∃ q e, i < q ∧ q ≤ j ∧ es[q]? = some e ∧ e.2.isAcquire = true ∧ e.2.thr = e₂.2.thr) :=
  ⟨mhb_needs_own_release h h₁ h₂ hne, mhb_needs_own_acquire h h₁ h₂ hne⟩

/-- **A lent argument is its own object.**  In every list of events over any number of objects, two accesses to
object `o` by different goroutines with no release by the first goroutine in `[i, j)` or no acquire by the second
in `(i, j]` are unordered both ways — whatever locks of OTHER objects (the resource the argument was handed to,
the logger, the allocator) either of them or anybody else holds or takes in between. -/
theorem C11_many_lent_argument_unordered {es : List MEv} {o i j t₁ t₂ : Nat} {a b : Access} (hij : i < j)
    (hi : es[i]? = some (o, XEv.acc t₁ a)) (hj : es[j]? = some (o, XEv.acc t₂ b)) (hne : t₁ ≠ t₂)
    (hn : mnoReleaseBy es t₁ i j = true ∨ mnoAcquireBy es t₂ i j = true) : ¬ MHB es i j ∧ ¬ MHB es j i :=
  ⟨fun h => hn.elim
      (fun hr => not_mhb_of_no_own_release (e₁ := (o, XEv.acc t₁ a)) (e₂ := (o, XEv.acc t₂ b)) hi hj hne hr h)
      (fun ha => not_mhb_of_no_own_acquire (e₁ := (o, XEv.acc t₁ a)) (e₂ := (o, XEv.acc t₂ b)) hi hj hne ha h),
   fun h => absurd (mhb_lt h) (by omega)⟩

/-- **The resource's lock does not protect the argument lent to it** (`exLent`: object 0 = a `Value` with its
mutex, object 1 = the message a caller hands to its write call; goroutine 2 = a goroutine the library starts
from a timer with the message).  The execution is valid, the events of the message conform to the two
lock-free rows the extractor emits for a lent argument; the caller's write before it armed the timer happens
before the timer goroutine's read, but the write the caller's side makes UNDER THE RESOURCE'S WRITE LOCK
afterwards is unordered with that read both ways: the reader takes no lock. -/
theorem C11_resource_lock_does_not_protect_lent_argument :
    mvalid (fun o => if o = 1 then 1 else 0) exLent = true ∧
    Conforms 1 (fun _ => 0) [lentW, lentR] (proj 1 exLent) ∧
    exLent[0]? = some (1, XEv.acc 1 lentW) ∧ exLent[4]? = some (1, XEv.acc 1 lentW) ∧
    exLent[8]? = some (1, XEv.acc 2 lentR) ∧ conflict lentW lentR ∧
    MHB exLent 0 8 ∧ ¬ MHB exLent 4 8 ∧ ¬ MHB exLent 8 4 := by
  have h := C11_many_lent_argument_unordered (es := exLent) (o := 1) (i := 4) (j := 8) (t₁ := 1) (t₂ := 2)
    (a := lentW) (b := lentR) (by decide) rfl rfl (by decide) (Or.inr (by decide))
  refine ⟨by decide, conformsB_sound (by decide), rfl, rfl, rfl, ⟨rfl, Or.inl rfl⟩, ?_, h.1, h.2⟩
  exact MHB.trans (MHB.po (i := 0) (j := 1) (e₁ := (1, XEv.acc 1 lentW)) (e₂ := (1, XEv.pub 1)) (by decide) rfl rfl rfl)
    (MHB.trans (MHB.publ (i := 1) (j := 2) (o := 1) (t := 1) (t' := 2) (by decide) rfl rfl)
      (MHB.po (i := 2) (j := 8) (e₁ := (1, XEv.get 2)) (e₂ := (1, XEv.acc 2 lentR)) (by decide) rfl rfl rfl))

/-- **Discipline ⇔ no race, with any number of instances**: for every table of well-formed rows, the lock
discipline holds iff in every many-object execution in which every object's events conform to the table any
two conflicting accesses to one object by different goroutines are ordered (⇐: a one-object execution is a
many-object one, `onObj`, with the same happens-before, so the witness of `C11_unordered_pair_has_racy_execution`
carries over). -/
theorem C11_many_discipline_iff_no_race {tbl : List Access} (hwf : ∀ a ∈ tbl, WfRow a) :
    raceFree tbl ↔ MNoRace tbl :=
  many_noRace_iff hwf

/-- the side condition of the lent-argument theorem is not vacuous: with the read moved before the owner's
release of ITS OWN publication nothing changes, but once the reader acquires after the writer released (the
fix: the goroutine is started, i.e. receives the message, after the last write) the accesses are ordered -/
example : mnoAcquireBy [(1, .acc 1 lentW), (1, .pub 1), (1, .get 2), (1, .acc 2 lentR)] 2 0 3 = false ∧
    MHB [(1, .acc 1 lentW), (1, .pub 1), (1, .get 2), (1, .acc 2 lentR)] 0 3 :=
  ⟨by decide,
   MHB.trans (MHB.po (i := 0) (j := 1) (e₁ := (1, XEv.acc 1 lentW)) (e₂ := (1, XEv.pub 1)) (by decide) rfl rfl rfl)
    (MHB.trans (MHB.publ (i := 1) (j := 2) (o := 1) (t := 1) (t' := 2) (by decide) rfl rfl)
      (MHB.po (i := 2) (j := 3) (e₁ := (1, XEv.get 2)) (e₂ := (1, XEv.acc 2 lentR)) (by decide) rfl rfl rfl))⟩

end ScVerif.C11
