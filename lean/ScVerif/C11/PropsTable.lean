import ScVerif.C11.TableObligation
import ScVerif.C11.LocksetLemmas
import ScVerif.C11.ExecNeed
import ScVerif.C11.Many
import ScVerif.Generated.C11Facts
/-!
C11 — the one obligation that depends on the table regenerated from /repo's sources on every run
(`ScVerif/Generated/C11Facts.lean`).  Everything that holds for every table is in `Props.lean`.

`table_obligation in` (see `TableObligation.lean`) keeps this module compiling when the regenerated
table refutes the statement; the theorem is then only present with `sorryAx` and the axiom audit
reports exactly this obligation as not discharged.
-/
namespace ScVerif.C11
open ScVerif.Generated.C11

table_obligation in
set_option maxRecDepth 100000 in
/-- Every conflicting pair of accesses in the extracted table (same field, at least one write, both
possibly live on different goroutines; a row is also paired with itself) is ordered by a common mutex
with an exclusive side, by construction-before-publication, by a single-goroutine role, or by a
channel-close edge. -/
theorem C11_lock_discipline : raceFree accesses :=
  raceFreeG_sound accesses (by decide +kernel)

table_obligation in
/-- C07 on the extracted table: every location for which the table lists a reader that relies on
nothing (the `caller:consumer` rows of the `published:` locations — the contents of the messages the
resources store and hand out by pointer) is frozen: the library has no write into such a message
outside construction. -/
theorem C11_published_frozen : ∀ r ∈ accesses, bareReader r → frozenIn accesses r.field :=
  fun _ hr hb => frozen_of_bareReader C11_lock_discipline hr hb

table_obligation in
/-- **The extracted table ⇒ no data race in the modelled executions**: in every execution of the
semantics of `Exec.lean` (mutexes, channel closes, publication / join of the object, any creator, any
assignment of roles to goroutines) in which the goroutines do what the table extracted on this run says
of them, any two conflicting accesses by different goroutines are ordered by happens-before. -/
theorem C11_table_executions_race_free : NoRace accesses :=
  fun _ _ _ _ hv hc _ _ _ _ _ _ hi hj hne hcf =>
    (Nat.lt_trichotomy _ _).elim (fun h => Or.inl (discipline_orders C11_lock_discipline hv hc h hi hj hne hcf))
      fun h => h.elim (fun h => by subst h; rw [hi] at hj; cases hj; exact absurd rfl hne)
        fun h => Or.inr (discipline_orders C11_lock_discipline hv hc h hj hi (Ne.symm hne) ⟨hcf.1.symm, hcf.2.symm⟩)

table_obligation in
set_option maxRecDepth 100000 in
/-- Every row of the extracted table is well formed (names each lock once, lists no channel both as closed
after it and as observed closed before it) — so `C11_discipline_iff_no_race` applies to it: for this
table the lock discipline is not only sufficient but also necessary for the absence of races in the
modelled executions (a pair the discipline does not order has a conforming racy execution). -/
theorem C11_table_rows_well_formed : ∀ a ∈ accesses, WfRow a :=
  fun a ha => (wfRowB_iff a).mp (List.all_eq_true.mp (show accesses.all wfRowB = true by decide +kernel) a ha)

table_obligation in
/-- **…with any number of instances at once** (round 8, `Many.lean`): in every execution of the many-object
semantics — any number of objects, each with its own locks, channels, creator and role assignment; program
order across objects, synchronisation edges within an object — in which the events of every object do what
the table extracted on this run says of them, any two conflicting accesses to one object by different
goroutines are ordered by happens-before of the whole execution. -/
theorem C11_table_many_instances_race_free {cr : Nat → Nat} {ρ : Nat → Nat → Nat} {es : List MEv}
    {Sf : Nat → XState} (hv : mrun cr minit es = some Sf) (hc : ∀ o, Conforms (cr o) (ρ o) accesses (proj o es))
    {o p q t₁ t₂ : Nat} {a b : Access} (hp : es[p]? = some (o, XEv.acc t₁ a))
    (hq : es[q]? = some (o, XEv.acc t₂ b)) (hne : t₁ ≠ t₂) (hcf : conflict a b) : MHB es p q ∨ MHB es q p :=
  many_no_data_race (tbl := fun _ => accesses) (fun _ => C11_lock_discipline) hv hc hp hq hne hcf

-- …and there are such rows
table_obligation in
set_option maxRecDepth 100000 in
example : (accesses.any bareReaderB) = true := by decide +kernel

-- The table is not trivially race free: it contains conflicting pairs of live rows in different functions.
table_obligation in
set_option maxRecDepth 100000 in
example : ∃ a ∈ accesses, ∃ b ∈ accesses,
    conflict a b ∧ a.phase = Phase.live ∧ b.phase = Phase.live ∧ a.fn ≠ b.fn :=
  exists_live_conflict accesses (by decide +kernel)

end ScVerif.C11
