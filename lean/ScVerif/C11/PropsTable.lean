import ScVerif.C11.TableObligation
import ScVerif.C11.LocksetLemmas
import ScVerif.Generated.C11Facts
/-!
C11 — the one obligation that depends on the table regenerated from /repo's sources on every run
(`ScVerif/Generated/C11Facts.lean`).  Everything that holds for every table is in `Props.lean`.

`table_obligation in` (see `TableObligation.lean`) keeps this module compiling when the regenerated
table refutes the statement; the theorem is then only present with `sorryAx` and the axiom audit
reports exactly this obligation as not discharged.
-/
namespace ScVerif.C11
open ScVerif.Generated.C11

table_obligation in
set_option maxRecDepth 100000 in
/-- Every conflicting pair of accesses in the extracted table (same field, at least one write, both
possibly live on different goroutines; a row is also paired with itself) is ordered by a common mutex
with an exclusive side, by construction-before-publication, by a single-goroutine role, or by a
channel-close edge. -/
theorem C11_lock_discipline : raceFree accesses :=
  raceFreeG_sound accesses (by decide +kernel)

table_obligation in
/-- C07 on the extracted table: every location for which the table lists a reader that relies on
nothing (the `caller:consumer` rows of the `published:` locations — the contents of the messages the
resources store and hand out by pointer) is frozen: the library has no write into such a message
outside construction. -/
theorem C11_published_frozen : ∀ r ∈ accesses, bareReader r → frozenIn accesses r.field :=
  fun _ hr hb => frozen_of_bareReader C11_lock_discipline hr hb

-- …and there are such rows
table_obligation in
set_option maxRecDepth 100000 in
example : (accesses.any bareReaderB) = true := by decide +kernel

-- The table is not trivially race free: it contains conflicting pairs of live rows in different functions.
table_obligation in
set_option maxRecDepth 100000 in
example : ∃ a ∈ accesses, ∃ b ∈ accesses,
    conflict a b ∧ a.phase = Phase.live ∧ b.phase = Phase.live ∧ a.fn ≠ b.fn :=
  exists_live_conflict accesses (by decide +kernel)

end ScVerif.C11
