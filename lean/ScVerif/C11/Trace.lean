import ScVerif.C11.Lockset
/-!
Why a common mutex with an exclusive side *orders* two accesses: a small-step semantics of
`sync.Mutex` / `sync.RWMutex` (a lock is held by one exclusive holder or by any number of shared
holders) and the theorem that, in every execution the semantics allows, if goroutine `t₁` performs
an access while holding `l` and a different goroutine `t₂` later performs an access while holding
`l`, at least one of them exclusively, then `t₁` has released `l` in between.  The Go memory model
then provides the happens-before edge (the n-th `Unlock` is synchronized before the m-th `Lock`
returns, n < m; likewise `RUnlock`/`Lock` and `Unlock`/`RLock`), which is the part that is assumed,
not proved.
-/
namespace ScVerif.C11

/-- Events of an execution: goroutine `t` acquires lock `l` in mode `m`, releases it, or performs the
access with table index `id`. -/
inductive Ev where
  | acq (t l : Nat) (m : LMode)
  | rel (t l : Nat)
  | acc (t id : Nat)
  deriving DecidableEq, Repr

/-- who holds what: (goroutine, lock, mode) -/
abbrev LState := List (Nat × Nat × LMode)

/-- `t` may acquire `l` in mode `m`: every current holder of `l` is another goroutine, and both
sides are shared. -/
def canAcq (st : LState) (t l : Nat) (m : LMode) : Bool :=
  st.all fun e => e.2.1 != l || (e.1 != t && m == LMode.shared && e.2.2 == LMode.shared)

def step (st : LState) : Ev → Option LState
  | .acq t l m => if canAcq st t l m then some ((t, l, m) :: st) else none
  | .rel t l => some (st.filter fun e => !(e.1 == t && e.2.1 == l))
  | .acc _ _ => some st

/-- run a sequence of events; `none` = the sequence is not an execution of the lock semantics -/
def run (st : LState) : List Ev → Option LState
  | [] => some st
  | e :: es => (step st e).bind fun st' => run st' es

/-- two different holders of one lock are both shared holders -/
def Compat (st : LState) : Prop :=
  ∀ t t' l m m', (t, l, m) ∈ st → (t', l, m') ∈ st → t ≠ t' → m = LMode.shared ∧ m' = LMode.shared

theorem compat_nil : Compat [] := by
  intro t t' l m m' h; simp at h

theorem canAcq_spec {st : LState} {t l : Nat} {m : LMode} (h : canAcq st t l m = true)
    {t' : Nat} {m' : LMode} (hm : (t', l, m') ∈ st) : t' ≠ t ∧ m = LMode.shared ∧ m' = LMode.shared := by
  simp only [canAcq, List.all_eq_true] at h
  have := h _ hm
  simp only [bne_self_eq_false, Bool.false_or, Bool.and_eq_true, bne_iff_ne, ne_eq, beq_iff_eq] at this
  exact ⟨this.1.1, this.1.2, this.2⟩

theorem step_compat {st st' : LState} {e : Ev} (hc : Compat st) (hs : step st e = some st') :
    Compat st' := by
  cases e with
  | acq t l m =>
    simp only [step] at hs
    split at hs
    · rename_i hca
      cases hs
      intro a b l' x y ha hb hne
      rcases List.mem_cons.mp ha with ha | ha <;> rcases List.mem_cons.mp hb with hb | hb
      · cases ha; cases hb; exact absurd rfl hne
      · cases ha
        have := canAcq_spec hca hb
        exact ⟨this.2.1, this.2.2⟩
      · cases hb
        have := canAcq_spec hca ha
        exact ⟨this.2.2, this.2.1⟩
      · exact hc a b l' x y ha hb hne
    · cases hs
  | rel t l =>
    simp only [step] at hs
    cases hs
    intro a b l' x y ha hb hne
    exact hc a b l' x y (List.mem_filter.mp ha).1 (List.mem_filter.mp hb).1 hne
  | acc t id =>
    simp only [step] at hs
    cases hs
    exact hc

theorem run_compat {es : List Ev} : ∀ {st st' : LState}, Compat st → run st es = some st' → Compat st' := by
  induction es with
  | nil => intro st st' hc h; simp only [run] at h; cases h; exact hc
  | cons e es ih =>
    intro st st' hc h
    simp only [run] at h
    cases hs : step st e with
    | none => simp [hs] at h
    | some s1 =>
      simp only [hs, Option.bind_some] at h
      exact ih (step_compat hc hs) h

/-- a holding survives every step that is not its own release -/
theorem step_keeps {st st' : LState} {e : Ev} {t l : Nat} {m : LMode} (hm : (t, l, m) ∈ st)
    (hs : step st e = some st') (hne : e ≠ Ev.rel t l) : (t, l, m) ∈ st' := by
  cases e with
  | acq t' l' m' =>
    simp only [step] at hs
    split at hs
    · cases hs; exact List.mem_cons_of_mem _ hm
    · cases hs
  | rel t' l' =>
    simp only [step] at hs
    cases hs
    refine List.mem_filter.mpr ⟨hm, ?_⟩
    simp only [Bool.not_eq_true', Bool.and_eq_false_iff, beq_eq_false_iff_ne, ne_eq]
    by_cases h1 : t = t'
    · by_cases h2 : l = l'
      · subst h1; subst h2; exact absurd rfl hne
      · exact Or.inr h2
    · exact Or.inl h1
  | acc t' id =>
    simp only [step] at hs
    cases hs; exact hm

theorem run_keeps {es : List Ev} : ∀ {st st' : LState} {t l : Nat} {m : LMode}, (t, l, m) ∈ st →
    run st es = some st' → Ev.rel t l ∉ es → (t, l, m) ∈ st' := by
  induction es with
  | nil => intro st st' t l m hm h _; simp only [run] at h; cases h; exact hm
  | cons e es ih =>
    intro st st' t l m hm h hnot
    simp only [run] at h
    cases hs : step st e with
    | none => simp [hs] at h
    | some s1 =>
      simp only [hs, Option.bind_some] at h
      have hne : e ≠ Ev.rel t l := fun heq => hnot (heq ▸ List.mem_cons_self)
      exact ih (step_keeps hm hs hne) h (fun hin => hnot (List.mem_cons_of_mem _ hin))

/-- **Mutual exclusion ⇒ an intervening release.**  In every execution (`pre` then `mid`) of the lock
semantics from the initial state: if `t₁` holds `l` in mode `m₁` after `pre` (where it performs its
access) and another goroutine `t₂` holds `l` in mode `m₂` after `mid` (where it performs its access)
and at least one of the modes is exclusive, then `t₁` released `l` during `mid`. -/
theorem release_between {pre mid : List Ev} {st₁ st₂ : LState} {t₁ t₂ l : Nat} {m₁ m₂ : LMode}
    (hpre : run [] pre = some st₁) (hmid : run st₁ mid = some st₂)
    (h₁ : (t₁, l, m₁) ∈ st₁) (h₂ : (t₂, l, m₂) ∈ st₂) (hne : t₁ ≠ t₂)
    (hx : m₁ = LMode.excl ∨ m₂ = LMode.excl) : Ev.rel t₁ l ∈ mid := by
  refine Classical.byContradiction fun hnot => ?_
  have hc₂ : Compat st₂ := run_compat (run_compat compat_nil hpre) hmid
  have hkeep : (t₁, l, m₁) ∈ st₂ := run_keeps h₁ hmid hnot
  have := hc₂ t₁ t₂ l m₁ m₂ hkeep h₂ hne
  rcases hx with hx | hx
  · rw [hx] at this; exact absurd this.1 (by decide)
  · rw [hx] at this; exact absurd this.2 (by decide)

/-- The same for two table rows: if the table says `commonLock a b`, and the goroutines executing
`a` and `b` really hold the locks the table lists (that is what the extraction claims), then in
every execution the first goroutine releases a common lock before the second one's access. -/
theorem commonLock_release_between {a b : Access} (hcl : commonLock a b)
    {pre mid : List Ev} {st₁ st₂ : LState} {t₁ t₂ : Nat}
    (hpre : run [] pre = some st₁) (hmid : run st₁ mid = some st₂)
    (ha : ∀ p ∈ a.held, (t₁, p.1, p.2) ∈ st₁) (hb : ∀ p ∈ b.held, (t₂, p.1, p.2) ∈ st₂)
    (hne : t₁ ≠ t₂) : ∃ l, Ev.rel t₁ l ∈ mid := by
  obtain ⟨l, m₁, m₂, h₁, h₂, hx⟩ := hcl
  exact ⟨l, release_between hpre hmid (ha _ h₁) (hb _ h₂) hne hx⟩

/-- Two shared holders really can overlap: the semantics admits an execution in which two
goroutines hold the same lock in shared mode at the same time (so `RLock` orders nothing). -/
theorem shared_overlap : ∃ st, run [] [Ev.acq 1 0 .shared, Ev.acq 2 0 .shared, Ev.acc 1 0, Ev.acc 2 0] = some st
    ∧ (1, 0, LMode.shared) ∈ st ∧ (2, 0, LMode.shared) ∈ st := by
  refine ⟨[(2, 0, .shared), (1, 0, .shared)], by decide, by decide, by decide⟩

/-- …whereas an exclusive holder excludes everybody else. -/
theorem excl_blocks (m : LMode) : run [] [Ev.acq 1 0 .excl, Ev.acq 2 0 m] = none := by
  cases m <;> decide

/-! ### The release/acquire pair between two ordered accesses -/

/-- a step adds a holding only by the matching acquire -/
theorem step_mem_sub {st st' : LState} {e : Ev} {x : Nat × Nat × LMode} (hs : step st e = some st')
    (hx : x ∈ st') : x ∈ st ∨ e = Ev.acq x.1 x.2.1 x.2.2 := by
  cases e with
  | acq t l m =>
    simp only [step] at hs
    split at hs
    · cases hs
      rcases List.mem_cons.mp hx with hx | hx
      · right; rw [hx]
      · exact Or.inl hx
    · cases hs
  | rel t l =>
    simp only [step] at hs
    cases hs
    exact Or.inl (List.mem_filter.mp hx).1
  | acc t id =>
    simp only [step] at hs
    cases hs
    exact Or.inl hx

/-- a holding that is absent before and present after an execution was acquired in it -/
theorem run_gains {es : List Ev} : ∀ {st st' : LState} {t l : Nat} {m : LMode}, (t, l, m) ∉ st →
    run st es = some st' → (t, l, m) ∈ st' → ∃ b c, es = b ++ Ev.acq t l m :: c := by
  induction es with
  | nil => intro st st' t l m hn h hin; simp only [run] at h; cases h; exact absurd hin hn
  | cons e es ih =>
    intro st st' t l m hn h hin
    simp only [run] at h
    cases hs : step st e with
    | none => simp [hs] at h
    | some s1 =>
      simp only [hs, Option.bind_some] at h
      by_cases hm : (t, l, m) ∈ s1
      · rcases step_mem_sub hs hm with h' | h'
        · exact absurd h' hn
        · exact ⟨[], es, by simp [h']⟩
      · obtain ⟨b, c, hbc⟩ := ih hm h hin
        exact ⟨e :: b, c, by simp [hbc]⟩

theorem not_mem_of_compat {st : LState} {t₁ t₂ l : Nat} {m₁ m₂ : LMode} (hc : Compat st)
    (h₁ : (t₁, l, m₁) ∈ st) (hne : t₁ ≠ t₂) (hx : m₁ = LMode.excl ∨ m₂ = LMode.excl) :
    (t₂, l, m₂) ∉ st := by
  intro h₂
  have := hc t₁ t₂ l m₁ m₂ h₁ h₂ hne
  rcases hx with hx | hx
  · rw [hx] at this; exact absurd this.1 (by decide)
  · rw [hx] at this; exact absurd this.2 (by decide)

theorem rel_then_acq {mid : List Ev} : ∀ {st₁ st₂ : LState} {t₁ t₂ l : Nat} {m₁ m₂ : LMode},
    Compat st₁ → run st₁ mid = some st₂ → (t₁, l, m₁) ∈ st₁ → (t₂, l, m₂) ∈ st₂ → t₁ ≠ t₂ →
    (m₁ = LMode.excl ∨ m₂ = LMode.excl) →
    ∃ a b c, mid = a ++ Ev.rel t₁ l :: (b ++ Ev.acq t₂ l m₂ :: c) := by
  induction mid with
  | nil =>
    intro st₁ st₂ t₁ t₂ l m₁ m₂ hc h h₁ h₂ hne hx
    simp only [run] at h; cases h
    exact absurd h₂ (not_mem_of_compat hc h₁ hne hx)
  | cons e es ih =>
    intro st₁ st₂ t₁ t₂ l m₁ m₂ hc h h₁ h₂ hne hx
    simp only [run] at h
    cases hs : step st₁ e with
    | none => simp [hs] at h
    | some s1 =>
      simp only [hs, Option.bind_some] at h
      by_cases he : e = Ev.rel t₁ l
      · have hn1 : (t₂, l, m₂) ∉ s1 := by
          intro hin
          rcases step_mem_sub hs hin with h' | h'
          · exact not_mem_of_compat hc h₁ hne hx h'
          · rw [he] at h'; cases h'
        obtain ⟨b, c, hbc⟩ := run_gains hn1 h h₂
        exact ⟨[], b, c, by simp [he, hbc]⟩
      · obtain ⟨a, b, c, habc⟩ := ih (step_compat hc hs) h (step_keeps h₁ hs he) h₂ hne hx
        exact ⟨e :: a, b, c, by simp [habc]⟩

/-- **Mutual exclusion ⇒ a release/acquire pair in between (the happens-before edge).**  Stronger
form of `release_between`: in every execution, between the point where `t₁` holds `l` (its access)
and the later point where `t₂ ≠ t₁` holds `l` (its access), one side exclusively, the execution
contains `t₁`'s release of `l` FOLLOWED BY `t₂`'s acquisition of `l` — exactly the pair of
synchronisation operations the Go memory model orders (`Unlock` before the later `Lock` returns), so
that access₁ →po release →sw acquire →po access₂. -/
theorem hb_between {pre mid : List Ev} {st₁ st₂ : LState} {t₁ t₂ l : Nat} {m₁ m₂ : LMode}
    (hpre : run [] pre = some st₁) (hmid : run st₁ mid = some st₂)
    (h₁ : (t₁, l, m₁) ∈ st₁) (h₂ : (t₂, l, m₂) ∈ st₂) (hne : t₁ ≠ t₂)
    (hx : m₁ = LMode.excl ∨ m₂ = LMode.excl) :
    ∃ a b c, mid = a ++ Ev.rel t₁ l :: (b ++ Ev.acq t₂ l m₂ :: c) :=
  rel_then_acq (run_compat compat_nil hpre) hmid h₁ h₂ hne hx

theorem commonLock_hb_between {a b : Access} (hcl : commonLock a b)
    {pre mid : List Ev} {st₁ st₂ : LState} {t₁ t₂ : Nat}
    (hpre : run [] pre = some st₁) (hmid : run st₁ mid = some st₂)
    (ha : ∀ p ∈ a.held, (t₁, p.1, p.2) ∈ st₁) (hb : ∀ p ∈ b.held, (t₂, p.1, p.2) ∈ st₂)
    (hne : t₁ ≠ t₂) :
    ∃ l m₂ x y z, (l, m₂) ∈ b.held ∧ mid = x ++ Ev.rel t₁ l :: (y ++ Ev.acq t₂ l m₂ :: z) := by
  obtain ⟨l, m₁, m₂, h₁, h₂, hx⟩ := hcl
  obtain ⟨x, y, z, h⟩ := hb_between hpre hmid (ha (l, m₁) h₁) (hb (l, m₂) h₂) hne hx
  exact ⟨l, m₂, x, y, z, h₂, h⟩

end ScVerif.C11
