import Lean
/-!
`table_obligation in <command>` — used only in `PropsTable.lean`, for the one obligation whose truth
depends on the table regenerated from the Go sources.

When the regenerated table refutes `raceFree`, the proof by `decide` fails.  A plain failure would make
the whole module fail to compile, and the run would report *every* C11 obligation as unchecked.  This
wrapper elaborates the command exactly as usual but demotes the errors it logs to warnings, so the
module still compiles.  Nothing is admitted by this: a theorem whose proof failed exists only with
`sorryAx` (Lean's error recovery), and the per-theorem axiom audit of `./check` accepts nothing but
`propext`, `Classical.choice`, `Quot.sound` — so the failure is reported as exactly
"`C11_lock_discipline` depends on axioms [sorryAx]", next to the lockset monitor's concrete unordered
pair.  (Same message handling as core's `#guard_msgs`.)
-/
open Lean Elab Command

elab "table_obligation " "in " c:command : command => do
  let saved ← modifyGet fun st => (st.messages, { st with messages := {} })
  -- as `#guard_msgs` does: no snapshot forwarding, so that the messages stay in our hands
  withReader ({ · with snap? := none }) do
    elabCommandTopLevel c
  let msgs := (← get).messages ++
    (← get).snapshotTasks.foldl
      (· ++ ·.get.getAll.foldl (· ++ ·.diagnostics.msgLog) MessageLog.empty) MessageLog.empty
  modify ({ · with snapshotTasks := #[] })
  let mut out := saved
  for m in msgs.toList do
    out := out.add
      (if m.severity == MessageSeverity.error then { m with severity := MessageSeverity.warning } else m)
  modify fun s => { s with messages := out }
