import ScVerif.C11.Exec
/-!
C11 — a decision procedure for `Conforms` on a concrete execution (sound), so that the hypotheses of
`discipline_orders` can be exhibited on concrete executions by evaluation, and the driver can answer
questions about executions (`exec` op).
-/
namespace ScVerif.C11

/-- `f k e` for every position `k` of `es` holding event `e` -/
def allIdx (es : List XEv) (f : Nat → XEv → Bool) : Bool :=
  (List.range es.length).all fun k => match es[k]? with
    | some e => f k e
    | none => true

theorem allIdx_spec {es : List XEv} {f : Nat → XEv → Bool} (h : allIdx es f = true) {k : Nat} {e : XEv}
    (he : es[k]? = some e) : f k e = true := by
  obtain ⟨hk, _⟩ := List.getElem?_eq_some_iff.mp he
  have := List.all_eq_true.mp h k (List.mem_range.mpr hk)
  simpa only [he] using this

def conformsB (cr : Nat) (ρ : Nat → Nat) (tbl : List Access) (es : List XEv) : Bool :=
  allIdx es fun k e => match e with
    | .acc t a =>
      tbl.contains a
      && (match stAt cr es k with
          | some s => a.held.all (fun p => s.held.contains (t, p.1, p.2)) && (a.phase != Phase.init || !s.pubd)
          | none => true)
      && (a.role == 0 || t == ρ a.role)
      && a.relAfter.all (fun c => allIdx es fun p e' => match e' with
            | .close t' c' => c' != c || (t' == t && decide (k < p))
            | _ => true)
      && a.acqBefore.all (fun c => (List.range k).any fun p => es[p]? == some (XEv.obs t c))
    | _ => true

theorem conformsB_sound {cr : Nat} {ρ : Nat → Nat} {tbl : List Access} {es : List XEv}
    (h : conformsB cr ρ tbl es = true) : Conforms cr ρ tbl es := by
  have key : ∀ (k t : Nat) (a : Access), es[k]? = some (XEv.acc t a) →
      tbl.contains a = true
      ∧ (match stAt cr es k with
          | some s => a.held.all (fun p => s.held.contains (t, p.1, p.2)) && (a.phase != Phase.init || !s.pubd)
          | none => true) = true
      ∧ (a.role == 0 || t == ρ a.role) = true
      ∧ a.relAfter.all (fun c => allIdx es fun p e' => match e' with
            | .close t' c' => c' != c || (t' == t && decide (k < p))
            | _ => true) = true
      ∧ a.acqBefore.all (fun c => (List.range k).any fun p => es[p]? == some (XEv.obs t c)) = true := by
    intro k t a he
    have := allIdx_spec h he
    simp only [Bool.and_eq_true] at this
    exact ⟨this.1.1.1.1, this.1.1.1.2, this.1.1.2, this.1.2, this.2⟩
  refine ⟨?_, ?_, ?_, ?_, ?_, ?_⟩
  · intro k t a he
    simpa using (key k t a he).1
  · intro k t a s he hs p hp
    have h2 := (key k t a he).2.1
    simp only [hs, Bool.and_eq_true, List.all_eq_true] at h2
    simpa using h2.1 p hp
  · intro k t a s he hs hph
    have h2 := (key k t a he).2.1
    simp only [hs, Bool.and_eq_true] at h2
    have := h2.2
    simp only [hph, bne_self_eq_false, Bool.false_or, Bool.not_eq_true'] at this
    exact this
  · intro k t a he hr
    have h3 := (key k t a he).2.2.1
    simp only [Bool.or_eq_true, beq_iff_eq] at h3
    rcases h3 with h3 | h3
    · exact absurd h3 hr
    · exact h3
  · intro k t a he c hc p t' hp
    have h4 := (key k t a he).2.2.2.1
    have := allIdx_spec (List.all_eq_true.mp h4 c hc) hp
    simp only [bne_self_eq_false, Bool.false_or, Bool.and_eq_true, beq_iff_eq, decide_eq_true_eq] at this
    exact this
  · intro k t a he c hc
    have h5 := (key k t a he).2.2.2.2
    obtain ⟨p, hp, hpe⟩ := List.any_eq_true.mp (List.all_eq_true.mp h5 c hc)
    exact ⟨p, List.mem_range.mp hp, by simpa using hpe⟩

/-- the conflicting pairs of access events of different goroutines, with their positions -/
def racePairs (es : List XEv) : List (Nat × Nat) :=
  (List.range es.length).flatMap fun i => (List.range es.length).filterMap fun j =>
    match es[i]?, es[j]? with
    | some (XEv.acc t₁ a), some (XEv.acc t₂ b) => if i < j && t₁ != t₂ && conflictB a b then some (i, j) else none
    | _, _ => none

/-- is there a release / close / publication at a position in `[i, j)` -/
def syncBetween (es : List XEv) (i j : Nat) : Bool :=
  (List.range j).any fun p => decide (i ≤ p) && (match es[p]? with | some e => e.isRelease | none => false)

/-- no synchronisation source between two events of different goroutines: not ordered by happens-before -/
theorem not_hb_of_no_sync {es : List XEv} {i j : Nat} {e₁ e₂ : XEv} (h₁ : es[i]? = some e₁)
    (h₂ : es[j]? = some e₂) (hne : e₁.thr ≠ e₂.thr) (hs : syncBetween es i j = false) : ¬ HB es i j := by
  intro hb
  obtain ⟨p, e, hip, hpj, hep, hrel⟩ := hb_needs_sync hb h₁ h₂ hne
  have : syncBetween es i j = true := by
    refine List.any_eq_true.mpr ⟨p, List.mem_range.mpr hpj, ?_⟩
    simp [hip, hep, hrel]
  rw [hs] at this
  cases this

/-- run as far as the semantics allows: the number of accepted events and the state reached (what the
driver's `exec` op reports; the harness compares it with real `sync.RWMutex`es and channels) -/
def xrunCount (cr : Nat) (s : XState) : List XEv → Nat × XState
  | [] => (0, s)
  | e :: es =>
    match xstep cr s e with
    | none => (0, s)
    | some s' => ((xrunCount cr s' es).1 + 1, (xrunCount cr s' es).2)

theorem xrunCount_full {cr : Nat} {es : List XEv} : ∀ {s sf : XState}, xrun cr s es = some sf →
    xrunCount cr s es = (es.length, sf) := by
  induction es with
  | nil => intro s sf h; simp only [xrun] at h; cases h; rfl
  | cons e es ih =>
    intro s sf h
    simp only [xrun] at h
    cases hs : xstep cr s e with
    | none => simp [hs] at h
    | some s1 =>
      simp only [hs, Option.bind_some] at h
      simp only [xrunCount, hs, ih h, List.length_cons]

theorem xrunCount_le {cr : Nat} {es : List XEv} : ∀ {s : XState}, (xrunCount cr s es).1 ≤ es.length := by
  induction es with
  | nil => intro s; simp [xrunCount]
  | cons e es ih =>
    intro s
    simp only [xrunCount]
    cases xstep cr s e with
    | none => simp
    | some s1 => simp only [List.length_cons]; exact Nat.succ_le_succ ih

end ScVerif.C11
