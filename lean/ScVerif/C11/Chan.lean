import ScVerif.C11.Lockset
/-!
Why a channel-close edge *orders* two accesses: a small-step semantics of closing a channel and of
observing it closed (a receive that returns because the channel is closed — `<-c` on a channel nobody
sends on, or the `!ok` branch of `v, ok := <-c`).  A channel is closed at most once (a second `close`
panics: not an execution), and it can be observed closed only after it has been closed.  Theorem: in
every execution, an observation of `c` is preceded by THE close of `c`; so if the first access is
followed in program order by its goroutine's `close(c)` and the second access is preceded in program
order by its goroutine's observation of `c`, the execution runs access₁ … close … observe … access₂
(the Go memory model: "the closing of a channel is synchronized before a receive that returns because
the channel is closed" — that edge is assumed, its existence in every execution is what is proved).
-/
namespace ScVerif.C11

inductive CEv where
  | close (t c : Nat)
  | obs (t c : Nat)
  | acc (t id : Nat)
  deriving DecidableEq, Repr

/-- the channels closed so far -/
abbrev CState := List Nat

def cstep (st : CState) : CEv → Option CState
  | .close _ c => if st.contains c then none else some (c :: st)
  | .obs _ c => if st.contains c then some st else none
  | .acc _ _ => some st

def crun (st : CState) : List CEv → Option CState
  | [] => some st
  | e :: es => (cstep st e).bind fun st' => crun st' es

theorem cstep_mono {st st' : CState} {e : CEv} (h : cstep st e = some st') {c : Nat} (hc : c ∈ st) :
    c ∈ st' := by
  cases e with
  | close t c' =>
    simp only [cstep] at h
    split at h
    · cases h
    · cases h; exact List.mem_cons_of_mem _ hc
  | obs t c' =>
    simp only [cstep] at h
    split at h
    · cases h; exact hc
    · cases h
  | acc t id => simp only [cstep] at h; cases h; exact hc

theorem crun_append {es₁ es₂ : List CEv} : ∀ {st st' : CState}, crun st (es₁ ++ es₂) = some st' →
    ∃ mid, crun st es₁ = some mid ∧ crun mid es₂ = some st' := by
  induction es₁ with
  | nil => intro st st' h; exact ⟨st, rfl, h⟩
  | cons e es ih =>
    intro st st' h
    simp only [List.cons_append, crun] at h ⊢
    cases hs : cstep st e with
    | none => simp [hs] at h
    | some s1 =>
      simp only [hs, Option.bind_some] at h ⊢
      exact ih h

theorem crun_mono {es : List CEv} : ∀ {st st' : CState}, crun st es = some st' → ∀ {c : Nat}, c ∈ st → c ∈ st' := by
  induction es with
  | nil => intro st st' h c hc; simp only [crun] at h; cases h; exact hc
  | cons e es ih =>
    intro st st' h c hc
    simp only [crun] at h
    cases hs : cstep st e with
    | none => simp [hs] at h
    | some s1 =>
      simp only [hs, Option.bind_some] at h
      exact ih h (cstep_mono hs hc)

/-- a channel that is closed after an execution but was not before was closed in it -/
theorem crun_gains {es : List CEv} : ∀ {st st' : CState} {c : Nat}, c ∉ st → crun st es = some st' → c ∈ st' →
    ∃ t x y, es = x ++ CEv.close t c :: y := by
  induction es with
  | nil => intro st st' c hn h hin; simp only [crun] at h; cases h; exact absurd hin hn
  | cons e es ih =>
    intro st st' c hn h hin
    simp only [crun] at h
    cases hs : cstep st e with
    | none => simp [hs] at h
    | some s1 =>
      simp only [hs, Option.bind_some] at h
      by_cases hm : c ∈ s1
      · cases e with
        | close t c' =>
          simp only [cstep] at hs
          split at hs
          · cases hs
          · cases hs
            rcases List.mem_cons.mp hm with hm | hm
            · exact ⟨t, [], es, by simp [hm]⟩
            · exact absurd hm hn
        | obs t c' =>
          simp only [cstep] at hs
          split at hs
          · cases hs; exact absurd hm hn
          · cases hs
        | acc t id => simp only [cstep] at hs; cases hs; exact absurd hm hn
      · obtain ⟨t, x, y, hxy⟩ := ih hm h hin
        exact ⟨t, e :: x, y, by simp [hxy]⟩

/-- once closed, a channel cannot be closed again: no execution continues with a second close -/
theorem crun_no_second_close {x : List CEv} : ∀ {st : CState} {t c : Nat} {y : List CEv}, c ∈ st →
    crun st (x ++ CEv.close t c :: y) = none := by
  induction x with
  | nil =>
    intro st t c y hc
    have : st.contains c = true := by simpa using hc
    simp only [List.nil_append, crun, cstep, this, if_true, Option.bind_none]
  | cons e es ih =>
    intro st t c y hc
    simp only [List.cons_append, crun]
    cases hs : cstep st e with
    | none => simp
    | some s1 =>
      simp only [Option.bind_some]
      exact ih (cstep_mono hs hc)

/-- **An observation is preceded by THE close.**  If an execution observes `c` closed at some point and
contains a `close(c)` by `t₁` anywhere, then that close lies before the observation. -/
theorem close_before_obs {es p q p' q' : List CEv} {st : CState} {t₁ t₂ c : Nat}
    (hrun : crun [] es = some st) (hobs : es = p ++ CEv.obs t₂ c :: q)
    (hclose : es = p' ++ CEv.close t₁ c :: q') : ∃ m, p = p' ++ CEv.close t₁ c :: m := by
  -- the channel is closed when the observation happens, so a close of `c` occurs in `p`
  have hrun' := hrun
  rw [hobs] at hrun'
  obtain ⟨mid, hp, hq⟩ := crun_append hrun'
  have hcm : c ∈ mid := by
    simp only [crun, cstep] at hq
    split at hq
    · rename_i hc; simpa using hc
    · simp at hq
  have heq : p ++ CEv.obs t₂ c :: q = p' ++ CEv.close t₁ c :: q' := hobs ▸ hclose
  rcases List.append_eq_append_iff.mp heq with ⟨a', hp', ha⟩ | ⟨a', hpp, ha⟩
  · -- the given close would lie after the observation: then `c` is closed twice
    cases a' with
    | nil => simp at ha
    | cons e m =>
      simp only [List.cons_append, List.cons.injEq] at ha
      obtain ⟨_, hq'⟩ := ha
      have : crun mid (CEv.obs t₂ c :: (m ++ CEv.close t₁ c :: q')) = none := by
        have := @crun_no_second_close (CEv.obs t₂ c :: m) mid t₁ c q' hcm
        simpa using this
      rw [hq'] at hq
      rw [this] at hq
      cases hq
  · cases a' with
    | nil => simp at ha
    | cons e m =>
      simp only [List.cons_append, List.cons.injEq] at ha
      exact ⟨m, by rw [hpp, ha.1]⟩

end ScVerif.C11
