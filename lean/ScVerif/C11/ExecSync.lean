import ScVerif.C11.ExecCheck
/-!
C11 — who has to synchronise (round 7).

`hb_needs_sync` (Exec.lean) says that happens-before between two goroutines needs *some* release between the
two positions.  That is weaker than what the argument for a lent argument needs: a goroutine the library
starts from a timer (the "took too long" alarm of `Value.set`) and the goroutine that is still inside the
write are ordered by the start of the timer for everything the writer did BEFORE it — and by nothing for
what the writer does afterwards, however much OTHER goroutines lock, close and publish in between.

Here: a happens-before path from position `i` to position `j` between two goroutines

* leaves the first goroutine through a release (unlock, close, publication, leave) executed BY THE FIRST
  goroutine at or after `i` and before `j` (`hb_needs_own_release`), and
* enters the second goroutine through an acquire (lock, observed close, receipt, join) executed BY THE SECOND
  goroutine after `i` and at or before `j` (`hb_needs_own_acquire`),

for every list of events (no validity needed: it is a property of the relation).
-/
namespace ScVerif.C11

/-- the target of a synchronisation edge: an acquire, an observed close, the receipt or a join -/
def XEv.isAcquire : XEv → Bool
  | .acq _ _ _ => true
  | .obs _ _ => true
  | .get _ => true
  | .join _ => true
  | _ => false

theorem hb_needs_own_release {es : List XEv} {i j : Nat} (h : HB es i j) : ∀ {e₁ e₂ : XEv}, es[i]? = some e₁ →
    es[j]? = some e₂ → e₁.thr ≠ e₂.thr →
    ∃ p e, i ≤ p ∧ p < j ∧ es[p]? = some e ∧ e.isRelease = true ∧ e.thr = e₁.thr := by
  induction h with
  | po _ h₁ h₂ ht =>
    intro e₁ e₂ g₁ g₂ hne
    rw [h₁] at g₁; rw [h₂] at g₂; cases g₁; cases g₂; exact absurd ht hne
  | lock hlt h₁ _ _ =>
    intro e₁ _ g₁ _ _; rw [h₁] at g₁; cases g₁; exact ⟨_, _, Nat.le_refl _, hlt, h₁, rfl, rfl⟩
  | chan hlt h₁ _ =>
    intro e₁ _ g₁ _ _; rw [h₁] at g₁; cases g₁; exact ⟨_, _, Nat.le_refl _, hlt, h₁, rfl, rfl⟩
  | publ hlt h₁ _ =>
    intro e₁ _ g₁ _ _; rw [h₁] at g₁; cases g₁; exact ⟨_, _, Nat.le_refl _, hlt, h₁, rfl, rfl⟩
  | join hlt h₁ _ =>
    intro e₁ _ g₁ _ _; rw [h₁] at g₁; cases g₁; exact ⟨_, _, Nat.le_refl _, hlt, h₁, rfl, rfl⟩
  | @trans i k j hik hkj ih₁ ih₂ =>
    intro e₁ e₂ g₁ g₂ hne
    obtain ⟨ek, hk⟩ := hb_valid_right hik
    have l₁ := hb_lt hik
    have l₂ := hb_lt hkj
    by_cases ht : e₁.thr = ek.thr
    · obtain ⟨p, e, h1, h2, h3, h4, h5⟩ := ih₂ hk g₂ (by rw [← ht]; exact hne)
      exact ⟨p, e, by omega, h2, h3, h4, by rw [h5, ht]⟩
    · obtain ⟨p, e, h1, h2, h3, h4, h5⟩ := ih₁ g₁ hk ht
      exact ⟨p, e, h1, by omega, h3, h4, h5⟩

theorem hb_needs_own_acquire {es : List XEv} {i j : Nat} (h : HB es i j) : ∀ {e₁ e₂ : XEv}, es[i]? = some e₁ →
    es[j]? = some e₂ → e₁.thr ≠ e₂.thr →
    ∃ q e, i < q ∧ q ≤ j ∧ es[q]? = some e ∧ e.isAcquire = true ∧ e.thr = e₂.thr := by
  induction h with
  | po _ h₁ h₂ ht =>
    intro e₁ e₂ g₁ g₂ hne
    rw [h₁] at g₁; rw [h₂] at g₂; cases g₁; cases g₂; exact absurd ht hne
  | lock hlt _ h₂ _ =>
    intro _ e₂ _ g₂ _; rw [h₂] at g₂; cases g₂; exact ⟨_, _, hlt, Nat.le_refl _, h₂, rfl, rfl⟩
  | chan hlt _ h₂ =>
    intro _ e₂ _ g₂ _; rw [h₂] at g₂; cases g₂; exact ⟨_, _, hlt, Nat.le_refl _, h₂, rfl, rfl⟩
  | publ hlt _ h₂ =>
    intro _ e₂ _ g₂ _; rw [h₂] at g₂; cases g₂; exact ⟨_, _, hlt, Nat.le_refl _, h₂, rfl, rfl⟩
  | join hlt _ h₂ =>
    intro _ e₂ _ g₂ _; rw [h₂] at g₂; cases g₂; exact ⟨_, _, hlt, Nat.le_refl _, h₂, rfl, rfl⟩
  | @trans i k j hik hkj ih₁ ih₂ =>
    intro e₁ e₂ g₁ g₂ hne
    obtain ⟨ek, hk⟩ := hb_valid_right hik
    have l₁ := hb_lt hik
    have l₂ := hb_lt hkj
    by_cases ht : ek.thr = e₂.thr
    · obtain ⟨q, e, h1, h2, h3, h4, h5⟩ := ih₁ g₁ hk (by rw [ht]; exact hne)
      exact ⟨q, e, h1, by omega, h3, h4, by rw [h5, ht]⟩
    · obtain ⟨q, e, h1, h2, h3, h4, h5⟩ := ih₂ hk g₂ ht
      exact ⟨q, e, by omega, h2, h3, h4, h5⟩

/-- decidable reading used by the examples: goroutine `t` executes no release at the positions `[i, j)` -/
def noReleaseBy (es : List XEv) (t i j : Nat) : Bool :=
  (List.range (j - i)).all fun d => match es[i + d]? with
    | some e => !(e.isRelease && e.thr == t)
    | none => true

/-- …and no acquire at the positions `(i, j]` -/
def noAcquireBy (es : List XEv) (t i j : Nat) : Bool :=
  (List.range (j - i)).all fun d => match es[i + 1 + d]? with
    | some e => !(e.isAcquire && e.thr == t)
    | none => true

theorem not_hb_of_no_own_release {es : List XEv} {i j : Nat} {e₁ e₂ : XEv} (h₁ : es[i]? = some e₁)
    (h₂ : es[j]? = some e₂) (hne : e₁.thr ≠ e₂.thr) (hn : noReleaseBy es e₁.thr i j = true) : ¬ HB es i j := by
  intro h
  obtain ⟨p, e, hp1, hp2, hp3, hp4, hp5⟩ := hb_needs_own_release h h₁ h₂ hne
  have := (List.all_eq_true.mp hn) (p - i) (List.mem_range.mpr (by omega))
  have hpi : i + (p - i) = p := by omega
  rw [hpi, hp3] at this
  simp [hp4, hp5] at this

theorem not_hb_of_no_own_acquire {es : List XEv} {i j : Nat} {e₁ e₂ : XEv} (h₁ : es[i]? = some e₁)
    (h₂ : es[j]? = some e₂) (hne : e₁.thr ≠ e₂.thr) (hn : noAcquireBy es e₂.thr i j = true) : ¬ HB es i j := by
  intro h
  obtain ⟨q, e, hq1, hq2, hq3, hq4, hq5⟩ := hb_needs_own_acquire h h₁ h₂ hne
  have := (List.all_eq_true.mp hn) (q - (i + 1)) (List.mem_range.mpr (by omega))
  have hqi : i + 1 + (q - (i + 1)) = q := by omega
  rw [hqi, hq3] at this
  simp [hq4, hq5] at this

/-! ### the shape of seeded change C11-17 as an execution

The object is the message a caller hands to `Value.Set`; its creator (goroutine 1) is the writing goroutine.
`lentW`: the writes the owner's side makes into the message while the call is open (`FieldUpdater.Merge`
filtering the update in place, a delta `InterceptBefore`); `lentR`: a goroutine the library started reading
it (the alarm formatting `%v`).  Both rows are lock-free and live — what `lent.go` emits (it also gives the
owner's row a single-goroutine role, so that the owner's writes are ordered with each other; not needed here). -/
def lentW : Access := ⟨0, .W, 1, [], .live, 0, [], []⟩
def lentR : Access := ⟨0, .R, 2, [], .live, 0, [], []⟩

/-- 0: the owner writes the message (builds it); 1: the write call arms the timer = hands the message to the
alarm goroutine; 2: the alarm goroutine starts; 3: the owner's side writes the message again (Merge / the
interceptor); 4–7: a third goroutine and the alarm goroutine synchronise with EACH OTHER through a mutex
(the logger's, the allocator's, …); 8: the alarm goroutine reads the message. -/
def exAlarm : List XEv :=
  [.acc 1 lentW, .pub 1, .get 2, .acc 1 lentW, .acq 3 0 .excl, .rel 3 0 .excl, .acq 2 0 .excl, .rel 2 0 .excl,
   .acc 2 lentR]

/-- the slow-check variant: the alarm goroutine reads first, the owner's side writes afterwards (the wait was
in `WithExpectedCheck`, `Merge` runs after it); the owner even takes a lock in between — one nobody released
after the read -/
def exAlarmLate : List XEv :=
  [.acc 1 lentW, .pub 1, .get 2, .acc 2 lentR, .acq 1 0 .excl, .rel 1 0 .excl, .acc 1 lentW]

end ScVerif.C11
