import ScVerif.C11.Trace
/-!
C11 — ONE small-step semantics for everything the table's `ordered` relies on, and what the lock
discipline means for its executions.

`Trace.lean` (mutexes) and `Chan.lean` (close/observe) justify two of the disjuncts of `ordered`
separately, pair by pair.  This file puts the four mechanisms into a single execution semantics of ONE
object shared between goroutines

* `acq t l m` / `rel t l m` — `sync.Mutex` / `sync.RWMutex`: one exclusive holder or any number of
  shared holders; a goroutine releases only what it holds, in the mode it holds it,
* `close t c` / `obs t c`  — a channel is closed at most once and observed closed only afterwards,
* `pub t` / `get t`        — the creating goroutine `cr` publishes the object (a `go` statement, a channel
  send, a store into something shared); another goroutine obtains the reference only after that,
* `leave t` / `join t`     — a goroutine is done with the object (`wg.Done()`, the close of its result
  channel, its return); the creator joins (`wg.Wait()` returns, the range over the channel ends) only when
  every goroutine that obtained the reference has left — the object is private to the creator again (the
  second reading of the table's constructor phase: a spawner's accesses after the join),
* `acc t a`                — goroutine `t` executes the table row `a`; a goroutine other than the
  creator can touch the object only after it has obtained the reference (memory safety),

defines happens-before on the positions of an execution as the transitive closure of program order and
the four synchronisation edges the Go memory model documents (`Unlock`/`RUnlock` → a later `Lock`,
`Unlock` → a later `RLock`; `close` → a receive that returns because of it; the publication → its
receipt; `Done` → the `Wait` that it lets return) and proves (`discipline_orders`):

  in EVERY execution in which the goroutines do what the table says of them (`Conforms`), if the table
  satisfies the lock discipline then any two conflicting accesses by different goroutines are ordered by
  happens-before.

That is the usual "lockset discipline ⇒ data-race freedom" argument, machine-checked for this table
format, for one instance of the object (lock and channel numbers are the table's per-type numbers).  The
edges themselves (that the runtime really synchronises there) are the Go memory model's and assumed.
-/
namespace ScVerif.C11

inductive XEv where
  | acq (t l : Nat) (m : LMode)
  | rel (t l : Nat) (m : LMode)
  | close (t c : Nat)
  | obs (t c : Nat)
  | pub (t : Nat)
  | get (t : Nat)
  | leave (t : Nat)
  | join (t : Nat)
  | acc (t : Nat) (a : Access)
  deriving DecidableEq, Repr

/-- the goroutine executing the event -/
def XEv.thr : XEv → Nat
  | .acq t _ _ => t
  | .rel t _ _ => t
  | .close t _ => t
  | .obs t _ => t
  | .pub t => t
  | .get t => t
  | .leave t => t
  | .join t => t
  | .acc t _ => t

/-- the source of a synchronisation edge: a release, a close, the publication or a leave -/
def XEv.isRelease : XEv → Bool
  | .rel _ _ _ => true
  | .close _ _ => true
  | .pub _ => true
  | .leave _ => true
  | _ => false

structure XState where
  /-- who holds which lock in which mode -/
  held : LState
  /-- channels closed so far -/
  closed : List Nat
  /-- the object is published: reachable by goroutines other than its creator (false again after a join) -/
  pubd : Bool
  /-- goroutines that have obtained a reference to the published object and not left yet -/
  got : List Nat
  deriving DecidableEq, Repr

def XState.init : XState := ⟨[], [], false, []⟩

/-- one step; `none` = not allowed by the runtime (`cr` is the goroutine that created the object) -/
def xstep (cr : Nat) (s : XState) : XEv → Option XState
  | .acq t l m => if canAcq s.held t l m then some { s with held := (t, l, m) :: s.held } else none
  | .rel t l m =>
    if s.held.contains (t, l, m) then
      some { s with held := s.held.filter fun e => !(e.1 == t && e.2.1 == l) }
    else none
  | .close _ c => if s.closed.contains c then none else some { s with closed := c :: s.closed }
  | .obs _ c => if s.closed.contains c then some s else none
  | .pub t => if t == cr && !s.pubd then some { s with pubd := true } else none
  | .get t => if s.pubd then some { s with got := t :: s.got } else none
  | .leave t => some { s with got := s.got.filter fun u => u != t }
  | .join t => if t == cr && s.pubd && s.got.isEmpty then some { s with pubd := false } else none
  | .acc t _ => if t == cr || s.got.contains t then some s else none

def xrun (cr : Nat) (s : XState) : List XEv → Option XState
  | [] => some s
  | e :: es => (xstep cr s e).bind fun s' => xrun cr s' es

/-- the state in which event number `k` is executed -/
def stAt (cr : Nat) (es : List XEv) (k : Nat) : Option XState := xrun cr XState.init (es.take k)

/-- Happens-before on the positions of an execution: program order, the four synchronisation edges,
transitivity. -/
inductive HB (es : List XEv) : Nat → Nat → Prop
  | po {i j : Nat} {e₁ e₂ : XEv} : i < j → es[i]? = some e₁ → es[j]? = some e₂ → e₁.thr = e₂.thr → HB es i j
  | lock {i j t t' l : Nat} {m₁ m₂ : LMode} : i < j → es[i]? = some (XEv.rel t l m₁) →
      es[j]? = some (XEv.acq t' l m₂) → (m₁ = LMode.excl ∨ m₂ = LMode.excl) → HB es i j
  | chan {i j t t' c : Nat} : i < j → es[i]? = some (XEv.close t c) → es[j]? = some (XEv.obs t' c) → HB es i j
  | publ {i j t t' : Nat} : i < j → es[i]? = some (XEv.pub t) → es[j]? = some (XEv.get t') → HB es i j
  | join {i j t t' : Nat} : i < j → es[i]? = some (XEv.leave t) → es[j]? = some (XEv.join t') → HB es i j
  | trans {i j k : Nat} : HB es i j → HB es j k → HB es i k

/-- What the extraction claims of an execution: every access event is a row of the table, executed
while its goroutine holds the locks the row lists; a constructor-phase row runs while the object is
private to its creator (before the publication or after a join); rows of one non-zero role run on one goroutine (`ρ`); the close of a channel listed in
`relAfter`, if it has happened, was done by the same goroutine after the access (it is the unique close
of that channel); a channel listed in `acqBefore` has been observed closed by the goroutine before. -/
structure Conforms (cr : Nat) (ρ : Nat → Nat) (tbl : List Access) (es : List XEv) : Prop where
  mem : ∀ (k t : Nat) (a : Access), es[k]? = some (XEv.acc t a) → a ∈ tbl
  held : ∀ (k t : Nat) (a : Access) (s : XState), es[k]? = some (XEv.acc t a) → stAt cr es k = some s → ∀ p ∈ a.held, (t, p.1, p.2) ∈ s.held
  init : ∀ (k t : Nat) (a : Access) (s : XState), es[k]? = some (XEv.acc t a) → stAt cr es k = some s → a.phase = Phase.init → s.pubd = false
  role : ∀ (k t : Nat) (a : Access), es[k]? = some (XEv.acc t a) → a.role ≠ 0 → t = ρ a.role
  rel : ∀ (k t : Nat) (a : Access), es[k]? = some (XEv.acc t a) → ∀ c ∈ a.relAfter, ∀ (p t' : Nat), es[p]? = some (XEv.close t' c) → t' = t ∧ k < p
  acq : ∀ (k t : Nat) (a : Access), es[k]? = some (XEv.acc t a) → ∀ c ∈ a.acqBefore, ∃ p, p < k ∧ es[p]? = some (XEv.obs t c)

/-! ### executions, positions -/

theorem xrun_append {cr : Nat} {a b : List XEv} : ∀ {s : XState},
    xrun cr s (a ++ b) = (xrun cr s a).bind fun s' => xrun cr s' b := by
  induction a with
  | nil => intro s; simp [xrun]
  | cons e es ih =>
    intro s
    simp only [List.cons_append, xrun]
    cases xstep cr s e with
    | none => simp
    | some s1 => simp only [Option.bind_some]; exact ih

theorem stAt_zero {cr : Nat} {es : List XEv} : stAt cr es 0 = some XState.init := by
  simp [stAt, xrun]

/-- every prefix of an execution is an execution -/
theorem stAt_some {cr : Nat} {es : List XEv} {sf : XState} (hv : xrun cr XState.init es = some sf) (k : Nat) :
    ∃ s, stAt cr es k = some s := by
  have h : xrun cr XState.init (es.take k ++ es.drop k) = some sf := by rw [List.take_append_drop]; exact hv
  rw [xrun_append] at h
  unfold stAt
  cases hx : xrun cr XState.init (es.take k) with
  | none => simp [hx] at h
  | some s => exact ⟨s, rfl⟩

theorem stAt_succ {cr : Nat} {es : List XEv} {k : Nat} {e : XEv} {s : XState} (he : es[k]? = some e)
    (hs : stAt cr es k = some s) : stAt cr es (k + 1) = xstep cr s e := by
  unfold stAt at hs ⊢
  rw [List.take_add_one, he, xrun_append, hs]
  simp only [Option.toList_some, Option.bind_some, xrun]
  cases xstep cr s e <;> simp

/-- how the state at `k+1` arises -/
theorem stAt_pred {cr : Nat} {es : List XEv} {k : Nat} {s2 : XState} (h : stAt cr es (k + 1) = some s2) :
    (∃ sm e, stAt cr es k = some sm ∧ es[k]? = some e ∧ xstep cr sm e = some s2) ∨ stAt cr es k = some s2 := by
  cases he : es[k]? with
  | none =>
    right
    unfold stAt at h ⊢
    rw [List.take_add_one, he] at h
    simpa using h
  | some e =>
    left
    cases hs : stAt cr es k with
    | none =>
      unfold stAt at h hs
      rw [List.take_add_one, he, xrun_append, hs] at h
      simp at h
    | some sm =>
      refine ⟨sm, e, rfl, rfl, ?_⟩
      rw [← stAt_succ he hs]; exact h

/-- in an execution, the event at a position is allowed in the state at that position -/
theorem step_at {cr : Nat} {es : List XEv} {sf : XState} (hv : xrun cr XState.init es = some sf) {k : Nat}
    {e : XEv} {s : XState} (he : es[k]? = some e) (hs : stAt cr es k = some s) :
    ∃ s', xstep cr s e = some s' ∧ stAt cr es (k + 1) = some s' := by
  obtain ⟨s', hs'⟩ := stAt_some hv (k + 1)
  rw [stAt_succ he hs] at hs'
  exact ⟨s', hs', by rw [stAt_succ he hs]; exact hs'⟩

/-- **Where a property of the state comes from.**  If `P` does not hold at position `k₁` and holds at
the later position `k₁+d`, some step in between turns it on. -/
theorem gain {cr : Nat} {es : List XEv} (P : XState → Prop) : ∀ (d k₁ : Nat) {s₁ s₂ : XState},
    stAt cr es k₁ = some s₁ → stAt cr es (k₁ + d) = some s₂ → ¬ P s₁ → P s₂ →
    ∃ p s e s', k₁ ≤ p ∧ p < k₁ + d ∧ stAt cr es p = some s ∧ es[p]? = some e ∧ xstep cr s e = some s'
      ∧ ¬ P s ∧ P s' := by
  intro d
  induction d with
  | zero =>
    intro k₁ s₁ s₂ h₁ h₂ hn hp
    rw [Nat.add_zero, h₁] at h₂; cases h₂; exact absurd hp hn
  | succ d ih =>
    intro k₁ s₁ s₂ h₁ h₂ hn hp
    rw [← Nat.add_assoc] at h₂
    rcases stAt_pred h₂ with ⟨sm, e, hsm, he, hst⟩ | hsame
    · by_cases hpm : P sm
      · obtain ⟨p, s, e', s', h1, h2, h3, h4, h5, h6, h7⟩ := ih k₁ h₁ hsm hn hpm
        exact ⟨p, s, e', s', h1, by omega, h3, h4, h5, h6, h7⟩
      · exact ⟨k₁ + d, sm, e, s₂, by omega, by omega, hsm, he, hst, hpm, hp⟩
    · obtain ⟨p, s, e', s', h1, h2, h3, h4, h5, h6, h7⟩ := ih k₁ h₁ hsame hn hp
      exact ⟨p, s, e', s', h1, by omega, h3, h4, h5, h6, h7⟩

/-- `gain` between two arbitrary positions -/
theorem gain' {cr : Nat} {es : List XEv} (P : XState → Prop) {k₁ k₂ : Nat} {s₁ s₂ : XState} (hk : k₁ ≤ k₂)
    (h₁ : stAt cr es k₁ = some s₁) (h₂ : stAt cr es k₂ = some s₂) (hn : ¬ P s₁) (hp : P s₂) :
    ∃ p s e s', k₁ ≤ p ∧ p < k₂ ∧ stAt cr es p = some s ∧ es[p]? = some e ∧ xstep cr s e = some s'
      ∧ ¬ P s ∧ P s' := by
  obtain ⟨d, rfl⟩ : ∃ d, k₂ = k₁ + d := ⟨k₂ - k₁, by omega⟩
  exact gain P d k₁ h₁ h₂ hn hp

/-- an invariant of steps holds at every position -/
theorem inv_at {cr : Nat} {es : List XEv} (I : XState → Prop) (h0 : I XState.init)
    (hstep : ∀ s e s', I s → xstep cr s e = some s' → I s') : ∀ (k : Nat) {s : XState},
    stAt cr es k = some s → I s := by
  intro k
  induction k with
  | zero => intro s h; rw [stAt_zero] at h; cases h; exact h0
  | succ k ih =>
    intro s h
    rcases stAt_pred h with ⟨sm, e, hsm, _, hst⟩ | hsame
    · exact hstep sm e s (ih hsm) hst
    · exact ih hsame

/-! ### what single steps do -/

theorem xstep_pubd_gain {cr : Nat} {s s' : XState} {e : XEv} (h : xstep cr s e = some s')
    (hn : ¬ s.pubd = true) (hp : s'.pubd = true) : e = XEv.pub cr := by
  cases e <;> simp only [xstep] at h <;> (try split at h) <;> cases h <;> try exact absurd hp hn
  · rename_i t hc
    simp only [Bool.and_eq_true, beq_iff_eq] at hc
    rw [hc.1]
  · exact absurd hp (by simp)

theorem xstep_closed_gain {cr : Nat} {s s' : XState} {e : XEv} {c : Nat} (h : xstep cr s e = some s')
    (hn : c ∉ s.closed) (hp : c ∈ s'.closed) : ∃ t, e = XEv.close t c := by
  cases e <;> simp only [xstep] at h <;> (try split at h) <;> cases h <;> try exact absurd hp hn
  rename_i t c' _
  rcases List.mem_cons.mp hp with hp | hp
  · exact ⟨t, by rw [hp]⟩
  · exact absurd hp hn

theorem xstep_got_gain {cr : Nat} {s s' : XState} {e : XEv} {t : Nat} (h : xstep cr s e = some s')
    (hn : t ∉ s.got) (hp : t ∈ s'.got) : e = XEv.get t ∧ s.pubd = true := by
  cases e <;> simp only [xstep] at h <;> (try split at h) <;> cases h <;> try exact absurd hp hn
  · rename_i t' hc
    rcases List.mem_cons.mp hp with hp | hp
    · exact ⟨by rw [hp], hc⟩
    · exact absurd hp hn
  · exact absurd (List.mem_filter.mp hp).1 hn

theorem xstep_held_gain {cr : Nat} {s s' : XState} {e : XEv} {x : Nat × Nat × LMode}
    (h : xstep cr s e = some s') (hn : x ∉ s.held) (hp : x ∈ s'.held) : e = XEv.acq x.1 x.2.1 x.2.2 := by
  cases e <;> simp only [xstep] at h <;> (try split at h) <;> cases h <;> try exact absurd hp hn
  · rcases List.mem_cons.mp hp with hp | hp
    · rw [hp]
    · exact absurd hp hn
  · exact absurd (List.mem_filter.mp hp).1 hn

theorem xstep_held_loss {cr : Nat} {s s' : XState} {e : XEv} {x : Nat × Nat × LMode}
    (h : xstep cr s e = some s') (hp : x ∈ s.held) (hn : x ∉ s'.held) :
    ∃ m, e = XEv.rel x.1 x.2.1 m ∧ (x.1, x.2.1, m) ∈ s.held := by
  cases e <;> simp only [xstep] at h <;> (try split at h) <;> cases h <;> try exact absurd hp hn
  · exact absurd (List.mem_cons_of_mem _ hp) hn
  · rename_i t l m hc
    have hm : (t, l, m) ∈ s.held := by simpa using hc
    by_cases hx : x.1 = t ∧ x.2.1 = l
    · exact ⟨m, by rw [hx.1, hx.2], by rw [hx.1, hx.2]; exact hm⟩
    · refine absurd (List.mem_filter.mpr ⟨hp, ?_⟩) hn
      simp only [Bool.not_eq_true', Bool.and_eq_false_iff, beq_eq_false_iff_ne, ne_eq]
      by_cases h1 : x.1 = t
      · exact Or.inr fun h2 => hx ⟨h1, h2⟩
      · exact Or.inl h1

/-! ### invariants -/

/-- a goroutine holds a lock in at most one mode -/
def Uniq (st : LState) : Prop := ∀ t l m m', (t, l, m) ∈ st → (t, l, m') ∈ st → m = m'

def XInv (s : XState) : Prop := Compat s.held ∧ Uniq s.held ∧ (s.pubd = false → s.got = [])

theorem xinv_init : XInv XState.init :=
  ⟨compat_nil, by intro t l m m' h; simp [XState.init] at h, fun _ => rfl⟩

theorem xinv_step {cr : Nat} (s : XState) (e : XEv) (s' : XState) (hi : XInv s) (h : xstep cr s e = some s') :
    XInv s' := by
  obtain ⟨hc, hu, hg⟩ := hi
  cases e with
  | acq t l m =>
    simp only [xstep] at h
    split at h
    · rename_i hca
      cases h
      refine ⟨?_, ?_, hg⟩
      · intro a b l' x y ha hb hne
        rcases List.mem_cons.mp ha with ha | ha <;> rcases List.mem_cons.mp hb with hb | hb
        · cases ha; cases hb; exact absurd rfl hne
        · cases ha
          have := canAcq_spec hca hb
          exact ⟨this.2.1, this.2.2⟩
        · cases hb
          have := canAcq_spec hca ha
          exact ⟨this.2.2, this.2.1⟩
        · exact hc a b l' x y ha hb hne
      · intro a l' x y ha hb
        rcases List.mem_cons.mp ha with ha | ha <;> rcases List.mem_cons.mp hb with hb | hb
        · cases ha; cases hb; rfl
        · cases ha
          exact absurd rfl (canAcq_spec hca hb).1
        · cases hb
          exact absurd rfl (canAcq_spec hca ha).1
        · exact hu a l' x y ha hb
    · cases h
  | rel t l m =>
    simp only [xstep] at h
    split at h
    · cases h
      refine ⟨?_, ?_, hg⟩
      · intro a b l' x y ha hb hne
        exact hc a b l' x y (List.mem_filter.mp ha).1 (List.mem_filter.mp hb).1 hne
      · intro a l' x y ha hb
        exact hu a l' x y (List.mem_filter.mp ha).1 (List.mem_filter.mp hb).1
    · cases h
  | close t c => simp only [xstep] at h; split at h <;> cases h; exact ⟨hc, hu, hg⟩
  | obs t c => simp only [xstep] at h; split at h <;> cases h; exact ⟨hc, hu, hg⟩
  | pub t =>
    simp only [xstep] at h; split at h <;> cases h
    exact ⟨hc, hu, fun hf => by simp at hf⟩
  | get t =>
    simp only [xstep] at h; split at h <;> cases h
    rename_i hp
    exact ⟨hc, hu, fun hf => by simp [hp] at hf⟩
  | leave t =>
    simp only [xstep] at h; cases h
    exact ⟨hc, hu, fun hf => by simp [hg hf]⟩
  | join t =>
    simp only [xstep] at h; split at h <;> cases h
    rename_i hj
    simp only [Bool.and_eq_true, List.isEmpty_iff] at hj
    exact ⟨hc, hu, fun _ => hj.2⟩
  | acc t a => simp only [xstep] at h; split at h <;> cases h; exact ⟨hc, hu, hg⟩

theorem xinv_at {cr : Nat} {es : List XEv} {k : Nat} {s : XState} (h : stAt cr es k = some s) : XInv s :=
  inv_at XInv xinv_init (fun s e s' => xinv_step s e s') k h

theorem xstep_got_loss {cr : Nat} {s s' : XState} {e : XEv} {t : Nat} (h : xstep cr s e = some s')
    (hp : t ∈ s.got) (hn : t ∉ s'.got) : e = XEv.leave t := by
  cases e <;> simp only [xstep] at h <;> (try split at h) <;> cases h <;> try exact absurd hp hn
  · exact absurd (List.mem_cons_of_mem _ hp) hn
  · rename_i u
    by_cases hu : t = u
    · rw [hu]
    · exact absurd (List.mem_filter.mpr ⟨hp, by simpa using hu⟩) hn

theorem xstep_pubd_loss {cr : Nat} {s s' : XState} {e : XEv} (h : xstep cr s e = some s')
    (hp : s.pubd = true) (hn : s'.pubd = false) : e = XEv.join cr := by
  cases e <;> simp only [xstep] at h <;> (try split at h) <;> cases h <;>
    try (rw [hp] at hn; cases hn)
  · cases hn
  · rename_i t hc
    simp only [Bool.and_eq_true, beq_iff_eq] at hc
    rw [hc.1.1]

/-- an access while the object is unpublished is the creator's -/
theorem acc_unpublished_creator {cr : Nat} {es : List XEv} {sf : XState} (hv : xrun cr XState.init es = some sf)
    {k t : Nat} {a : Access} {s : XState} (he : es[k]? = some (XEv.acc t a)) (hs : stAt cr es k = some s)
    (hu : s.pubd = false) : t = cr := by
  obtain ⟨s', hst, _⟩ := step_at hv he hs
  have hg := (xinv_at hs).2.2 hu
  simp only [xstep, hg, List.contains_nil, Bool.or_false] at hst
  split at hst
  · rename_i h; exact beq_iff_eq.mp h
  · cases hst

/-! ### happens-before: basic facts -/

theorem hb_lt {es : List XEv} {i j : Nat} (h : HB es i j) : i < j := by
  induction h with
  | po h _ _ _ => exact h
  | lock h _ _ _ => exact h
  | chan h _ _ => exact h
  | publ h _ _ => exact h
  | join h _ _ => exact h
  | trans _ _ ih₁ ih₂ => omega

theorem hb_valid_left {es : List XEv} {i j : Nat} (h : HB es i j) : ∃ e, es[i]? = some e := by
  induction h with
  | po _ h _ _ => exact ⟨_, h⟩
  | lock _ h _ _ => exact ⟨_, h⟩
  | chan _ h _ => exact ⟨_, h⟩
  | publ _ h _ => exact ⟨_, h⟩
  | join _ h _ => exact ⟨_, h⟩
  | trans _ _ ih₁ _ => exact ih₁

theorem hb_valid_right {es : List XEv} {i j : Nat} (h : HB es i j) : ∃ e, es[j]? = some e := by
  induction h with
  | po _ _ h _ => exact ⟨_, h⟩
  | lock _ _ h _ => exact ⟨_, h⟩
  | chan _ _ h => exact ⟨_, h⟩
  | publ _ _ h => exact ⟨_, h⟩
  | join _ _ h => exact ⟨_, h⟩
  | trans _ _ _ ih₂ => exact ih₂

/-- happens-before between two goroutines needs a synchronisation: a release, close or publication at
or after the first position and before the second. -/
theorem hb_needs_sync {es : List XEv} {i j : Nat} (h : HB es i j) : ∀ {e₁ e₂ : XEv}, es[i]? = some e₁ →
    es[j]? = some e₂ → e₁.thr ≠ e₂.thr → ∃ p e, i ≤ p ∧ p < j ∧ es[p]? = some e ∧ e.isRelease = true := by
  induction h with
  | po _ h₁ h₂ ht =>
    intro e₁ e₂ g₁ g₂ hne
    rw [h₁] at g₁; rw [h₂] at g₂; cases g₁; cases g₂; exact absurd ht hne
  | lock hlt h₁ _ _ => intro _ _ _ _ _; exact ⟨_, _, Nat.le_refl _, hlt, h₁, rfl⟩
  | chan hlt h₁ _ => intro _ _ _ _ _; exact ⟨_, _, Nat.le_refl _, hlt, h₁, rfl⟩
  | publ hlt h₁ _ => intro _ _ _ _ _; exact ⟨_, _, Nat.le_refl _, hlt, h₁, rfl⟩
  | join hlt h₁ _ => intro _ _ _ _ _; exact ⟨_, _, Nat.le_refl _, hlt, h₁, rfl⟩
  | @trans i k j hik hkj ih₁ ih₂ =>
    intro e₁ e₂ g₁ g₂ hne
    obtain ⟨ek, hk⟩ := hb_valid_right hik
    have l₁ := hb_lt hik
    have l₂ := hb_lt hkj
    by_cases ht : e₁.thr = ek.thr
    · obtain ⟨p, e, h1, h2, h3, h4⟩ := ih₂ hk g₂ (by rw [← ht]; exact hne)
      exact ⟨p, e, by omega, h2, h3, h4⟩
    · obtain ⟨p, e, h1, h2, h3, h4⟩ := ih₁ g₁ hk ht
      exact ⟨p, e, h1, by omega, h3, h4⟩

/-! ### the lock discipline orders every execution -/

/-- a common lock with an exclusive side: release by the first goroutine, then acquire by the second,
between the two positions -/
theorem lock_edge_between {cr : Nat} {es : List XEv} {i j t₁ t₂ l : Nat} {m₁ m₂ : LMode} {si sj : XState}
    (hij : i ≤ j) (hi : stAt cr es i = some si) (hj : stAt cr es j = some sj)
    (h₁ : (t₁, l, m₁) ∈ si.held) (h₂ : (t₂, l, m₂) ∈ sj.held) (hne : t₁ ≠ t₂)
    (hx : m₁ = LMode.excl ∨ m₂ = LMode.excl) :
    ∃ p q, i ≤ p ∧ p < q ∧ q < j ∧ es[p]? = some (XEv.rel t₁ l m₁) ∧ es[q]? = some (XEv.acq t₂ l m₂) := by
  have hnj : (t₁, l, m₁) ∉ sj.held := fun h => not_mem_of_compat (xinv_at hj).1 h hne hx h₂
  obtain ⟨p, sp, e, sp', hp1, hp2, hsp, hep, hst, hin, hout⟩ :=
    gain' (fun s => (t₁, l, m₁) ∉ s.held) hij hi hj (fun h => h h₁) hnj
  have hin' : (t₁, l, m₁) ∈ sp.held := Classical.byContradiction fun h => hin h
  obtain ⟨m, hrel, hm⟩ := xstep_held_loss hst hin' hout
  have hmm : m = m₁ := (xinv_at hsp).2.1 t₁ l m m₁ hm hin'
  subst hmm
  -- the second goroutine does not hold the lock when the first one releases it
  have hn2 : (t₂, l, m₂) ∉ sp.held := not_mem_of_compat (xinv_at hsp).1 hin' hne hx
  obtain ⟨q, sq, e', sq', hq1, hq2, _, heq, hst', hin2, hout2⟩ :=
    gain' (fun s => (t₂, l, m₂) ∈ s.held) (Nat.le_of_lt hp2) hsp hj hn2 h₂
  have hacq := xstep_held_gain hst' hin2 hout2
  have hpq : p ≠ q := by
    intro h; subst h
    rw [hep] at heq; cases heq
    rw [hrel] at hacq; cases hacq
  exact ⟨p, q, hp1, by omega, hq2, by rw [hep, hrel], by rw [heq, hacq]⟩

/-- **Lock discipline ⇒ happens-before, in every execution.** -/
theorem discipline_orders {cr : Nat} {ρ : Nat → Nat} {tbl : List Access} {es : List XEv} {sf : XState}
    (hrf : raceFree tbl) (hv : xrun cr XState.init es = some sf) (hc : Conforms cr ρ tbl es)
    {i j t₁ t₂ : Nat} {a b : Access} (hij : i < j) (hi : es[i]? = some (XEv.acc t₁ a))
    (hj : es[j]? = some (XEv.acc t₂ b)) (hne : t₁ ≠ t₂) (hcf : conflict a b) : HB es i j := by
  obtain ⟨si, hsi⟩ := stAt_some hv i
  obtain ⟨sj, hsj⟩ := stAt_some hv j
  have hord := hrf a (hc.mem i t₁ a hi) b (hc.mem j t₂ b hj) hcf
  rcases hord with hinit | hinit | hrole | hlock | hce | hce
  · -- `a` runs before publication: creator's access, publication, receipt by the other goroutine
    have hu := hc.init i t₁ a si hi hsi hinit
    have ht₁ : t₁ = cr := acc_unpublished_creator hv hi hsi hu
    obtain ⟨_, hstj, _⟩ := step_at hv hj hsj
    have hg₂ : t₂ ∈ sj.got := by
      simp only [xstep] at hstj
      split at hstj
      · rename_i h
        simp only [Bool.or_eq_true, beq_iff_eq, List.contains_iff_mem] at h
        rcases h with h | h
        · exact absurd (ht₁.trans h.symm) hne
        · exact h
      · cases hstj
    have hg₁ : t₂ ∉ si.got := by rw [(xinv_at hsi).2.2 hu]; simp
    obtain ⟨q, sq, e, sq', hq1, hq2, hsq, heq, hst, hin, hout⟩ :=
      gain' (fun s => t₂ ∈ s.got) (Nat.le_of_lt hij) hsi hsj hg₁ hg₂
    obtain ⟨hget, hpq⟩ := xstep_got_gain hst hin hout
    obtain ⟨p, sp, e', sp', hp1, hp2, _, hep, hst', hin', hout'⟩ :=
      gain' (fun s => s.pubd = true) hq1 hsi hsq (by simp [hu]) hpq
    have hpub := xstep_pubd_gain hst' hin' hout'
    have hip : i ≠ p := by
      intro h; subst h
      rw [hi] at hep; cases hep; cases hpub
    refine HB.trans (HB.po (j := p) (by omega) hi hep ?_)
      (HB.trans (HB.publ (j := q) hp2 (by rw [hep, hpub]) (by rw [heq, hget])) (HB.po hq2 heq hj ?_))
    · rw [hpub]; exact ht₁
    · rw [hget]; rfl
  · -- `b` runs while the object is private to the creator again: `a`'s goroutine has left, the creator
    -- has joined
    have hu := hc.init j t₂ b sj hj hsj hinit
    have ht₂ : t₂ = cr := acc_unpublished_creator hv hj hsj hu
    obtain ⟨_, hsti, _⟩ := step_at hv hi hsi
    have hg₁ : t₁ ∈ si.got := by
      simp only [xstep] at hsti
      split at hsti
      · rename_i h
        simp only [Bool.or_eq_true, beq_iff_eq, List.contains_iff_mem] at h
        rcases h with h | h
        · exact absurd (h.trans ht₂.symm) hne
        · exact h
      · cases hsti
    have hg₂ : t₁ ∉ sj.got := by rw [(xinv_at hsj).2.2 hu]; simp
    obtain ⟨p, sp, e, sp', hp1, hp2, hsp, hep, hst, hin, hout⟩ :=
      gain' (fun s => t₁ ∉ s.got) (Nat.le_of_lt hij) hsi hsj (fun h => h hg₁) hg₂
    have hin' : t₁ ∈ sp.got := Classical.byContradiction fun h => hin h
    have hleave := xstep_got_loss hst hin' hout
    have hpp : sp.pubd = true := by
      cases h : sp.pubd with
      | true => rfl
      | false => rw [(xinv_at hsp).2.2 h] at hin'; simp at hin'
    obtain ⟨q, sq, e', sq', hq1, hq2, _, heq, hst', hin2, hout2⟩ :=
      gain' (fun s => s.pubd = false) (Nat.le_of_lt hp2) hsp hsj (by simp [hpp]) hu
    have hjoin := xstep_pubd_loss hst' (by cases h : sq.pubd with | true => rfl | false => exact absurd h hin2) hout2
    have hip : i ≠ p := by
      intro h; subst h
      rw [hi] at hep; cases hep; cases hleave
    have hpq : p ≠ q := by
      intro h; subst h
      rw [hep] at heq; cases heq
      rw [hleave] at hjoin; cases hjoin
    refine HB.trans (HB.po (j := p) (by omega) hi hep ?_)
      (HB.trans (HB.join (j := q) (by omega) (by rw [hep, hleave]) (by rw [heq, hjoin])) (HB.po hq2 heq hj ?_))
    · rw [hleave]; rfl
    · rw [hjoin]; exact ht₂.symm
  · -- one role, one goroutine
    have h₁ := hc.role i t₁ a hi hrole.1
    have h₂ := hc.role j t₂ b hj (by rw [← hrole.2]; exact hrole.1)
    rw [hrole.2] at h₁
    exact absurd (h₁.trans h₂.symm) hne
  · obtain ⟨l, m₁, m₂, ha, hb, hx⟩ := hlock
    have ha' : (t₁, l, m₁) ∈ si.held := hc.held i t₁ a si hi hsi (l, m₁) ha
    have hb' : (t₂, l, m₂) ∈ sj.held := hc.held j t₂ b sj hj hsj (l, m₂) hb
    obtain ⟨p, q, hp, hpq, hq, hrel, hacq⟩ := lock_edge_between (Nat.le_of_lt hij) hsi hsj ha' hb' hne hx
    have hip : i ≠ p := by intro h; subst h; rw [hi] at hrel; cases hrel
    exact HB.trans (HB.po (j := p) (by omega) hi hrel rfl)
      (HB.trans (HB.lock hpq hrel hacq hx) (HB.po hq hacq hj rfl))
  · -- close edge a → b
    obtain ⟨c, hca, hcb⟩ := hce
    obtain ⟨q, hq, hobs⟩ := hc.acq j t₂ b hj c hcb
    obtain ⟨sq, hsq⟩ := stAt_some hv q
    obtain ⟨_, hstq, _⟩ := step_at hv hobs hsq
    have hcl : c ∈ sq.closed := by
      simp only [xstep] at hstq
      split at hstq
      · rename_i h; simpa using h
      · cases hstq
    obtain ⟨p, sp, e, sp', _, hp2, _, hep, hst, hin, hout⟩ :=
      gain' (fun s => c ∈ s.closed) (Nat.zero_le q) stAt_zero hsq (by simp [XState.init]) hcl
    obtain ⟨t', hclose⟩ := xstep_closed_gain hst hin hout
    rw [hclose] at hep
    obtain ⟨ht', hip⟩ := hc.rel i t₁ a hi c hca p t' hep
    subst ht'
    exact HB.trans (HB.po hip hi hep rfl) (HB.trans (HB.chan hp2 hep hobs) (HB.po hq hobs hj rfl))
  · -- close edge b → a is impossible when `a` comes first: the close would lie after `b`
    obtain ⟨c, hcb, hca⟩ := hce
    obtain ⟨q, hq, hobs⟩ := hc.acq i t₁ a hi c hca
    obtain ⟨sq, hsq⟩ := stAt_some hv q
    obtain ⟨_, hstq, _⟩ := step_at hv hobs hsq
    have hcl : c ∈ sq.closed := by
      simp only [xstep] at hstq
      split at hstq
      · rename_i h; simpa using h
      · cases hstq
    obtain ⟨p, sp, e, sp', _, hp2, _, hep, hst, hin, hout⟩ :=
      gain' (fun s => c ∈ s.closed) (Nat.zero_le q) stAt_zero hsq (by simp [XState.init]) hcl
    obtain ⟨t', hclose⟩ := xstep_closed_gain hst hin hout
    rw [hclose] at hep
    have := (hc.rel j t₂ b hj c hcb p t' hep).2
    omega

end ScVerif.C11
