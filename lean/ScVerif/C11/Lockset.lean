/-
C11 — lock discipline (lockset + declared happens-before) over an extracted access table.

A Lean theorem cannot speak about the Go memory model of a running binary.  What *is* logic is the
lock discipline: for every pair of accesses to the same memory location, at least one of them a
write, that may be executed by two goroutines, the code must establish an ordering:

* a common mutex of the same object held by both, with at least one side holding it exclusively
  (`sync.Mutex.Lock`, `sync.RWMutex.Lock`; two `RLock` holders are NOT ordered), or
* one of the two runs in the constructor, before the object is published, or
* both belong to the same single-goroutine role of a type whose contract is "one goroutine"
  (the server half of an in-process stream), or
* a channel-close edge: the first access is followed, in program order, by the unique `close(c)` of a
  channel and the second one is preceded, in program order, by an observation that `c` is closed.

A mutex guards the object it lives in.  An object that is reachable from several owners through a
package-level variable (one `*rand.Rand` created in a `var Default… = …` initialiser and handed to
every model built from those defaults) is therefore listed by the generator as a location
`shared:<pkg.Var>-><field>` whose rows hold none of the owners' mutexes: the owners' mutexes are
different mutexes.  Such a write row conflicts with itself and is unordered.

Two more kinds of location are listed the same way.  `bus-shared:<type>.<field>`: the fields of an
event object whose pointer is sent on the bus — all listeners receive the same pointer, so a write by
the library after the send (an in-place filter) holds no lock and is unordered with every other
listener's access; accesses through a private copy or a freshly created event are constructor-phase.
`local:<func>.<var>`: a local variable that a `go func(){…}` literal shares with its spawner; accesses
before the spawn or after a join are constructor-phase, a literal started once carries a role.

The table (one row per syntactic access to a field of a concurrently usable type, with the locks
held at that point) is regenerated from /repo's sources on every run by `harness/cmd/c11 -facts`
(`ScVerif/Generated/C11Facts.lean`).  Names are numbered by the generator (`fieldNames`, …) so that the
kernel only compares natural numbers.
-/
namespace ScVerif.C11

inductive Kind where
  | R | W
  deriving DecidableEq, Repr

inductive LMode where
  | shared | excl
  deriving DecidableEq, Repr

inductive Phase where
  | init | live
  deriving DecidableEq, Repr

/-- One syntactic access to a field (or to the object a field designates). -/
structure Access where
  /-- memory location class: index into `fieldNames` (`pkg.Type.field`) -/
  field : Nat
  kind : Kind
  /-- function / closure slot containing the access (index into `fnNames`; documentation only) -/
  fn : Nat
  /-- mutexes of the same object held at the access, with the mode they are held in -/
  held : List (Nat × LMode)
  /-- `init`: runs in the constructor, before the object is reachable by another goroutine -/
  phase : Phase
  /-- 0 = may run on any goroutine; equal non-zero roles = same goroutine by the type's contract -/
  role : Nat
  /-- channels whose unique `close` follows this access in program order on every path -/
  relAfter : List Nat
  /-- channels that have been observed closed before this access in program order -/
  acqBefore : List Nat
  deriving DecidableEq, Repr

/-! ### Specification (Prop level) -/

/-- Two accesses touch the same location and at least one writes it. -/
def conflict (a b : Access) : Prop :=
  a.field = b.field ∧ (a.kind = Kind.W ∨ b.kind = Kind.W)

/-- Both hold a common mutex and at least one side holds it exclusively. -/
def commonLock (a b : Access) : Prop :=
  ∃ l m₁ m₂, (l, m₁) ∈ a.held ∧ (l, m₂) ∈ b.held ∧ (m₁ = LMode.excl ∨ m₂ = LMode.excl)

/-- `a` is followed by the close of a channel that `b` has observed closed. -/
def closeEdge (a b : Access) : Prop :=
  ∃ c, c ∈ a.relAfter ∧ c ∈ b.acqBefore

/-- The code orders the two accesses (in one of the ways listed in the header). -/
def ordered (a b : Access) : Prop :=
  a.phase = Phase.init ∨ b.phase = Phase.init
  ∨ (a.role ≠ 0 ∧ a.role = b.role)
  ∨ commonLock a b
  ∨ closeEdge a b ∨ closeEdge b a

/-- The lock discipline: every conflicting pair of the table (a row is also paired with itself:
two goroutines may execute the same statement) is ordered. -/
def raceFree (tbl : List Access) : Prop :=
  ∀ a ∈ tbl, ∀ b ∈ tbl, conflict a b → ordered a b

/-- Location `f` is *frozen* in the table: nothing writes it once it is published (every write row is
constructor-phase).  For the `published:` locations — the contents of the messages a resource stores
and hands out by pointer to `Get`/`List`/`Pull` callers, interceptors and event consumers — this is
exactly C07's "published messages are never written", read off the table. -/
def frozenIn (t : List Access) (f : Nat) : Prop :=
  ∀ a ∈ t, a.field = f → a.kind = Kind.W → a.phase = Phase.init

def frozenInB (t : List Access) (f : Nat) : Bool :=
  t.all fun a => !(a.field == f) || !(a.kind == Kind.W) || a.phase == Phase.init

/-- A reader that relies on nothing: live, on any goroutine, no lock, no close edge — the synthetic
`caller:consumer` row the generator emits for every `published:` location (a caller that reads a
message it was given). -/
def bareReader (r : Access) : Prop :=
  r.kind = Kind.R ∧ r.phase = Phase.live ∧ r.role = 0 ∧ r.held = [] ∧ r.relAfter = [] ∧ r.acqBefore = []

def bareReaderB (r : Access) : Bool :=
  r.kind == Kind.R && r.phase == Phase.live && r.role == 0 && r.held.isEmpty && r.relAfter.isEmpty
    && r.acqBefore.isEmpty

/-! ### Executable versions (what `decide`, the driver and the harness evaluate) -/

def conflictB (a b : Access) : Bool :=
  a.field == b.field && (a.kind == Kind.W || b.kind == Kind.W)

def commonLockB (a b : Access) : Bool :=
  a.held.any fun p => b.held.any fun q => p.1 == q.1 && (p.2 == LMode.excl || q.2 == LMode.excl)

def closeEdgeB (a b : Access) : Bool :=
  a.relAfter.any fun c => b.acqBefore.contains c

def orderedB (a b : Access) : Bool :=
  a.phase == Phase.init || b.phase == Phase.init
  || (a.role != 0 && a.role == b.role)
  || commonLockB a b
  || closeEdgeB a b || closeEdgeB b a

def pairOkB (a b : Access) : Bool := !conflictB a b || orderedB a b

def raceFreeB (tbl : List Access) : Bool :=
  tbl.all fun a => tbl.all fun b => pairOkB a b

/-- Same decision with less work for the kernel: only rows that are live writes need to be paired
with every row (a conflict needs a write, a constructor-phase row is ordered with everything, and
`ordered` is symmetric) — see `raceFreeW_iff`. -/
def raceFreeW (tbl : List Access) : Bool :=
  (tbl.filter fun a => a.kind == Kind.W && a.phase == Phase.live).all fun a => tbl.all fun b => pairOkB a b

/-- The decision the kernel actually runs on the extracted table.  The generator sorts the rows by
field, so the table is a sequence of *runs* of equal field; only rows of one run can conflict.  `goRuns`
walks the table once, collects the current run, checks each completed run with `raceFreeW` and checks
that the field numbers of consecutive runs strictly increase (so that two different runs never share a
field).  Quadratic only in the run lengths — see `raceFreeG_sound` (sound for every table; it answers
`false` on a table that is not sorted, it never accepts a table that is not race free). -/
def goRuns : List Access → List Access → Bool
  | cur, [] => raceFreeW cur
  | [], b :: rest => goRuns [b] rest
  | a :: cur, b :: rest =>
    if b.field == a.field then goRuns (b :: a :: cur) rest
    else Nat.blt a.field b.field && raceFreeW (a :: cur) && goRuns [b] rest

def raceFreeG (tbl : List Access) : Bool := goRuns [] tbl

/-- the generator's order: field numbers never decrease along the table -/
def sortedByField : List Access → Prop
  | [] => True
  | a :: rest => (∀ b ∈ rest, a.field ≤ b.field) ∧ sortedByField rest

def sortedByFieldB : List Access → Bool
  | [] => true
  | a :: rest => rest.all (fun b => Nat.ble a.field b.field) && sortedByFieldB rest

/-- The unordered conflicting pairs of a table (indices), what the static monitor reports. -/
def badPairs (tbl : List Access) : List (Nat × Nat) :=
  let idx := tbl.zipIdx
  idx.foldr (fun (a, i) acc =>
    (idx.filterMap fun (b, j) => if i ≤ j && !pairOkB a b then some (i, j) else none) ++ acc) []

end ScVerif.C11
