import ScVerif.C11.ExecCheck
import ScVerif.C11.ExecNeed
import ScVerif.C11.LocksetLemmas
/-!
C11 — property theorems about EXECUTIONS (`Exec.lean`): one small-step semantics of mutexes, channel
closes, publication of the object and accesses; happens-before as the transitive closure of program
order and the three synchronisation edges the Go memory model documents.

The central statement: for every table that satisfies the lock discipline and EVERY execution in which
the goroutines do what the table says of them, any two conflicting accesses by different goroutines are
ordered by happens-before — lock discipline ⇒ data-race freedom of the modelled executions.  What stays
assumed is only that the runtime really synchronises at the three kinds of edge (Go memory model) and
that the extraction's claims (`Conforms`) are true of the running program.
-/
namespace ScVerif.C11

/-- **Lock discipline ⇒ every conflicting pair is ordered by happens-before, in every execution.**
For every creator goroutine, every assignment of roles to goroutines, every table satisfying the
discipline and every execution of the semantics that conforms to the table: if position `i` holds an
access by `t₁`, a later position `j` an access by another goroutine `t₂`, and the two rows conflict,
then `i` happens before `j` — through the publication or through the other goroutine's leave and the
creator's join (the two readings of the constructor phase), a release/acquire pair of a common mutex, or a
close/observe pair of a channel; rows of one role are never on two goroutines. -/
theorem C11_discipline_orders_every_execution {cr : Nat} {ρ : Nat → Nat} {tbl : List Access} {es : List XEv}
    {sf : XState} (hrf : raceFree tbl) (hv : xrun cr XState.init es = some sf) (hc : Conforms cr ρ tbl es)
    {i j t₁ t₂ : Nat} {a b : Access} (hij : i < j) (hi : es[i]? = some (XEv.acc t₁ a))
    (hj : es[j]? = some (XEv.acc t₂ b)) (hne : t₁ ≠ t₂) (hcf : conflict a b) : HB es i j :=
  discipline_orders hrf hv hc hij hi hj hne hcf

/-- **No data race**: any two conflicting accesses by different goroutines, wherever they stand in the
execution, are ordered one way or the other. -/
theorem C11_no_data_race {cr : Nat} {ρ : Nat → Nat} {tbl : List Access} {es : List XEv} {sf : XState}
    (hrf : raceFree tbl) (hv : xrun cr XState.init es = some sf) (hc : Conforms cr ρ tbl es)
    {i j t₁ t₂ : Nat} {a b : Access} (hi : es[i]? = some (XEv.acc t₁ a)) (hj : es[j]? = some (XEv.acc t₂ b))
    (hne : t₁ ≠ t₂) (hcf : conflict a b) : HB es i j ∨ HB es j i := by
  rcases Nat.lt_trichotomy i j with h | h | h
  · exact Or.inl (discipline_orders hrf hv hc h hi hj hne hcf)
  · subst h; rw [hi] at hj; cases hj; exact absurd rfl hne
  · exact Or.inr (discipline_orders hrf hv hc h hj hi (Ne.symm hne) ⟨hcf.1.symm, hcf.2.symm⟩)

/-- the hypotheses are satisfiable (`exLocked`: a valid, conforming execution of a race-free table with a
conflicting pair on two goroutines — writer then reader of one RWMutex after publication), and the
conclusion is the expected chain -/
example : HB exLocked 3 6 :=
  C11_discipline_orders_every_execution (cr := 1) (ρ := fun _ => 0) (tbl := [exW, exR])
    (sf := ⟨[(2, 0, .shared)], [], true, [2]⟩) (t₁ := 1) (t₂ := 2) (a := exW) (b := exR)
    (by decide) (by decide) (conformsB_sound (by decide)) (by decide) (by decide) (by decide) (by decide)
    ⟨rfl, Or.inl rfl⟩

/-- (`exMixed`) constructor phase, channel-close edge and a single-goroutine role in one execution: the creator
writes before publishing, then closes channel 7 after its last write; goroutine 2 reads after observing
the close and leaves; the creator joins and writes again (constructor phase after the join); role 5 rows
all run on goroutine 1 -/
example : HB exMixed 0 7 ∧ HB exMixed 4 7 ∧ HB exMixed 7 10 :=
  have hrf : raceFree [exInit, exRel, exAcq] := by decide
  have hv : xrun 1 XState.init exMixed = some ⟨[], [7], false, []⟩ := by decide
  have hc : Conforms 1 (fun _ => 1) [exInit, exRel, exAcq] exMixed := conformsB_sound (by decide)
  ⟨C11_discipline_orders_every_execution hrf hv hc (t₁ := 1) (t₂ := 2) (a := exInit) (b := exAcq)
      (by decide) (by decide) (by decide) (by decide) ⟨rfl, Or.inl rfl⟩,
   C11_discipline_orders_every_execution hrf hv hc (t₁ := 1) (t₂ := 2) (a := exRel) (b := exAcq)
      (by decide) (by decide) (by decide) (by decide) ⟨rfl, Or.inl rfl⟩,
   C11_discipline_orders_every_execution hrf hv hc (t₁ := 2) (t₂ := 1) (a := exAcq) (b := exInit)
      (by decide) (by decide) (by decide) (by decide) ⟨rfl, Or.inr rfl⟩⟩

/-- Happens-before never contradicts the order of the execution (so it is irreflexive and acyclic: the
conclusion of `C11_discipline_orders_every_execution` is not a relation that holds of everything). -/
theorem C11_hb_follows_execution_order {es : List XEv} {i j : Nat} (h : HB es i j) : i < j := hb_lt h

/-- Happens-before between two goroutines needs a synchronisation: a release, a close, the publication or
a leave at or after the first position and before the second, in every list of events. -/
theorem C11_hb_needs_synchronisation {es : List XEv} {i j : Nat} {e₁ e₂ : XEv} (h : HB es i j)
    (h₁ : es[i]? = some e₁) (h₂ : es[j]? = some e₂) (hne : e₁.thr ≠ e₂.thr) :
    ∃ p e, i ≤ p ∧ p < j ∧ es[p]? = some e ∧ e.isRelease = true :=
  hb_needs_sync h h₁ h₂ hne

/-- **The discipline is needed**: the pre-fix `genID` row (a write under `RLock`) has a conforming
execution with a data race — two goroutines hold the read lock together and write; the two accesses are
not ordered by happens-before in either direction. -/
theorem C11_shared_write_execution_races :
    (∃ sf, xrun 1 XState.init exRacy = some sf) ∧ Conforms 1 (fun _ => 0) [exShW] exRacy
    ∧ exRacy[4]? = some (XEv.acc 1 exShW) ∧ exRacy[5]? = some (XEv.acc 2 exShW) ∧ conflict exShW exShW
    ∧ ¬ HB exRacy 4 5 ∧ ¬ HB exRacy 5 4 :=
  ⟨⟨⟨[(2, 0, .shared), (1, 0, .shared)], [], true, [2]⟩, by decide⟩, conformsB_sound (by decide), by decide,
    by decide, ⟨rfl, Or.inl rfl⟩,
    not_hb_of_no_sync (e₁ := XEv.acc 1 exShW) (e₂ := XEv.acc 2 exShW) (by decide) (by decide) (by decide) (by decide),
    fun h => absurd (hb_lt h) (by decide)⟩

/-- **Construction before publication**, in every execution: an access executed while the object is
private to its creator (not yet published, or joined again) is the creator's — no other goroutine can reach the object (what makes the table's
constructor-phase rows ordered with everything). -/
theorem C11_unpublished_access_is_creators {cr : Nat} {es : List XEv} {sf : XState}
    (hv : xrun cr XState.init es = some sf) {k t : Nat} {a : Access} {s : XState}
    (he : es[k]? = some (XEv.acc t a)) (hs : stAt cr es k = some s) (hu : s.pubd = false) : t = cr :=
  acc_unpublished_creator hv he hs hu

/-- …and it is not vacuous: another goroutine's access before the publication is not an execution -/
example : xrun 1 XState.init [.acc 2 exInit] = none ∧ xrun 1 XState.init [.get 2] = none
    ∧ xrun 1 XState.init [.pub 2] = none
    ∧ xrun 1 XState.init [.pub 1, .get 2, .join 1] = none
    ∧ xrun 1 XState.init [.pub 1, .get 2, .leave 2, .join 1, .acc 2 exAcq] = none := by decide

/-- **Mutual exclusion as an invariant of every execution**: at every position two different goroutines
hold one lock only if both hold it shared, and a goroutine holds a lock in one mode only. -/
theorem C11_mutex_invariant {cr : Nat} {es : List XEv} {k : Nat} {s : XState} (hs : stAt cr es k = some s) :
    (∀ t t' l m m', (t, l, m) ∈ s.held → (t', l, m') ∈ s.held → t ≠ t' → m = LMode.shared ∧ m' = LMode.shared)
    ∧ (∀ t l m m', (t, l, m) ∈ s.held → (t, l, m') ∈ s.held → m = m') :=
  ⟨(xinv_at hs).1, (xinv_at hs).2.1⟩

/-- The release/acquire pair between two holders, by positions: if `t₁` holds `l` at position `i` and
another goroutine `t₂` holds it at a later position `j`, one of them exclusively, then `t₁`'s release (in
the mode it held) and after it `t₂`'s acquire lie in between. -/
theorem C11_lock_edge_between {cr : Nat} {es : List XEv} {i j t₁ t₂ l : Nat} {m₁ m₂ : LMode} {si sj : XState}
    (hij : i ≤ j) (hi : stAt cr es i = some si) (hj : stAt cr es j = some sj)
    (h₁ : (t₁, l, m₁) ∈ si.held) (h₂ : (t₂, l, m₂) ∈ sj.held) (hne : t₁ ≠ t₂)
    (hx : m₁ = LMode.excl ∨ m₂ = LMode.excl) :
    ∃ p q, i ≤ p ∧ p < q ∧ q < j ∧ es[p]? = some (XEv.rel t₁ l m₁) ∧ es[q]? = some (XEv.acq t₂ l m₂) :=
  lock_edge_between hij hi hj h₁ h₂ hne hx

/-- the decision procedure the examples (and the driver) use for `Conforms` is sound -/
theorem C11_conforms_check_sound {cr : Nat} {ρ : Nat → Nat} {tbl : List Access} {es : List XEv}
    (h : conformsB cr ρ tbl es = true) : Conforms cr ρ tbl es :=
  conformsB_sound h

/-- …and it rejects an execution that does not do what the table says (the access without its lock) -/
example : conformsB 1 (fun _ => 0) [exW] [.acc 1 exW] = false := by decide

/-- **The discipline is necessary, pair by pair.**  For ANY two rows that `ordered` does not order
(neither is constructor-phase, no common non-zero role, no common lock with an exclusive side, no close
edge), each naming a lock at most once and listing no channel both as closed after it and as observed
closed before it (such a row has no execution at all): there is an execution of the semantics that does
everything the two rows say — a third goroutine closes the channels the rows want observed, goroutine 1
observes its channels and performs `a` holding `a`'s locks, goroutine 2 likewise performs `b` — in which
the two accesses are not ordered by happens-before in either direction. -/
theorem C11_unordered_pair_has_racy_execution {a b : Access} (hno : ¬ ordered a b)
    (hwa : WfRow a) (hwb : WfRow b) :
    ∃ (ρ : Nat → Nat) (es : List XEv) (sf : XState) (i j : Nat), xrun 1 XState.init es = some sf
      ∧ Conforms 1 ρ [a, b] es ∧ es[i]? = some (XEv.acc 1 a) ∧ es[j]? = some (XEv.acc 2 b)
      ∧ ¬ HB es i j ∧ ¬ HB es j i := by
  obtain ⟨ρ, sf, h⟩ := unordered_pair_races hno hwa.1 hwb.1 hwa.2 hwb.2
  exact ⟨ρ, racyExec a b, sf, _, _, h⟩

/-- the hypotheses are satisfiable: a reader under `RLock` of one mutex and a writer under `Lock` of
ANOTHER mutex (the shape of a write guarded by the wrong lock) that has waited for channel 8 and closes
channel 9 afterwards -/
example : ¬ ordered exR ⟨0, .W, 3, [(1, .excl)], .live, 0, [9], [8]⟩ ∧ WfRow exR
    ∧ WfRow ⟨0, .W, 3, [(1, .excl)], .live, 0, [9], [8]⟩ :=
  ⟨fun h => absurd ((orderedB_iff _ _).mpr h) (by decide), (wfRowB_iff _).mp (by decide),
    (wfRowB_iff _).mp (by decide)⟩

/-- …and the side condition excludes only rows that cannot be executed (closed after, observed before) and
rows naming a lock twice -/
example : ¬ WfRow ⟨0, .W, 3, [], .live, 0, [9], [9]⟩ ∧ ¬ WfRow ⟨0, .W, 3, [(1, .excl), (1, .shared)], .live, 0, [], []⟩ :=
  ⟨fun h => absurd ((wfRowB_iff _).mpr h) (by decide), fun h => absurd ((wfRowB_iff _).mpr h) (by decide)⟩

/-- **Lock discipline ⇔ data-race freedom of the modelled executions**, for every table of well-formed
rows (each lock named once, no channel both closed after and observed before the same row): the table
satisfies the discipline if and only if in every execution that conforms to it any two conflicting
accesses by different goroutines are ordered by happens-before.  (⇒ holds for every table:
`C11_no_data_race`.) -/
theorem C11_discipline_iff_no_race (tbl : List Access) (hwf : ∀ a ∈ tbl, WfRow a) : raceFree tbl ↔ NoRace tbl :=
  ⟨fun hrf _ _ _ _ hv hc _ _ _ _ _ _ hi hj hne hcf => C11_no_data_race hrf hv hc hi hj hne hcf,
   raceFree_of_noRace hwf⟩

/-- the side condition is satisfiable by a table with a reader/writer pair under one RWMutex -/
example : ∀ a ∈ [exW, exR, exRel, exAcq], WfRow a := by
  intro a ha
  simp only [List.mem_cons, List.not_mem_nil, or_false] at ha
  rcases ha with rfl | rfl | rfl | rfl <;> exact (wfRowB_iff _).mp (by decide)

end ScVerif.C11
