import ScVerif.C11.LocksetLemmas
import ScVerif.C11.Trace
import ScVerif.C11.Chan
import ScVerif.C11.Slice
/-!
C11 — property theorems (claim level: **partial**, see props/C11.json).

`C11_lock_discipline` (PropsTable.lean) is re-checked on every run against the table regenerated from
/repo's sources.  The theorems of this file hold for every table; they are what makes the statement more than a lookup:
the executable check decides the Prop-level discipline, the discipline is implied by the classical
guard discipline, is monotone, composes, and is refuted by a write under a shared lock.
-/
namespace ScVerif.C11

/-- The executable check used by the driver, the harness and `decide` is exactly the specification. -/
theorem C11_check_sound_complete (tbl : List Access) : raceFreeB tbl = true ↔ raceFree tbl :=
  raceFreeB_iff tbl

/-- Lock discipline ⇒ race freedom, for every table: a guard mutex per field held by every live
access, exclusively by every live write. -/
theorem C11_guarded_raceFree (t : List Access) (guard : Nat → Nat)
    (hr : ∀ a ∈ t, a.phase = Phase.live → ∃ m, (guard a.field, m) ∈ a.held)
    (hw : ∀ a ∈ t, a.phase = Phase.live → a.kind = Kind.W → (guard a.field, LMode.excl) ∈ a.held) :
    raceFree t :=
  raceFree_of_guarded t guard hr hw

/-- Monotone: dropping rows keeps the discipline (so a sub-table of a verified table is verified). -/
theorem C11_raceFree_mono {t₁ t₂ : List Access} (hsub : ∀ a ∈ t₁, a ∈ t₂) (h : raceFree t₂) : raceFree t₁ :=
  raceFree_of_subset hsub h

/-- Compositional: per-package tables over disjoint fields combine. -/
theorem C11_raceFree_compose {t₁ t₂ : List Access} (h₁ : raceFree t₁) (h₂ : raceFree t₂)
    (hd : ∀ a ∈ t₁, ∀ b ∈ t₂, a.field ≠ b.field) : raceFree (t₁ ++ t₂) :=
  raceFree_append_disjoint h₁ h₂ hd

/-- A live write on an arbitrary goroutine that holds its mutexes only in shared mode (and has no
close edge to itself) refutes the discipline of every table containing it — the shape of the `genID`
defect (`config.rng` written under `Collection.mu.RLock`). -/
theorem C11_shared_write_refutes {t : List Access} {a : Access} (ha : a ∈ t) (hw : a.kind = Kind.W)
    (hp : a.phase = Phase.live) (hr : a.role = 0) (hh : ∀ p ∈ a.held, p.2 = LMode.shared)
    (hc : ∀ c ∈ a.relAfter, c ∉ a.acqBefore) : ¬ raceFree t :=
  not_raceFree_of_self ha hw (not_ordered_shared_self a hp hr hh hc)

/-- the hypothesis of `C11_shared_write_refutes` is satisfiable: the pre-fix `genID` row -/
example : ¬ raceFree [Access.mk 0 .W 0 [(0, .shared)] .live 0 [] []] :=
  C11_shared_write_refutes (List.mem_singleton.mpr rfl) rfl rfl rfl (by simp) (by simp)

/-- Why a common mutex with an exclusive side orders: in EVERY execution of the mutex semantics
(`Trace.lean`: one exclusive holder or any number of shared holders), if the goroutine executing `a`
holds the locks the table lists for `a`, and a different goroutine later executes `b` holding the locks
listed for `b`, and the table says `commonLock a b`, then the first goroutine released a common lock
in between (the Go memory model turns that release/acquire pair into happens-before). -/
theorem C11_exclusive_lock_orders {a b : Access} (hcl : commonLock a b)
    {pre mid : List Ev} {st₁ st₂ : LState} {t₁ t₂ : Nat}
    (hpre : run [] pre = some st₁) (hmid : run st₁ mid = some st₂)
    (ha : ∀ p ∈ a.held, (t₁, p.1, p.2) ∈ st₁) (hb : ∀ p ∈ b.held, (t₂, p.1, p.2) ∈ st₂)
    (hne : t₁ ≠ t₂) : ∃ l, Ev.rel t₁ l ∈ mid :=
  commonLock_release_between hcl hpre hmid ha hb hne

/-- the hypotheses of `C11_exclusive_lock_orders` are satisfiable: writer then reader of one RWMutex -/
example : ∃ st₁ st₂, run [] [Ev.acq 1 0 .excl] = some st₁ ∧
    run st₁ [Ev.acc 1 0, Ev.rel 1 0, Ev.acq 2 0 .shared] = some st₂ ∧
    (1, 0, LMode.excl) ∈ st₁ ∧ (2, 0, LMode.shared) ∈ st₂ :=
  ⟨[(1, 0, .excl)], [(2, 0, .shared)], by decide, by decide, by decide, by decide⟩

/-- …and two `RLock` holders are NOT ordered: the semantics has an execution in which both hold the
lock at once, which is why `commonLock` demands an exclusive side. -/
theorem C11_shared_lock_does_not_order :
    ∃ st, run [] [Ev.acq 1 0 .shared, Ev.acq 2 0 .shared, Ev.acc 1 0, Ev.acc 2 0] = some st
      ∧ (1, 0, LMode.shared) ∈ st ∧ (2, 0, LMode.shared) ∈ st :=
  shared_overlap

theorem C11_ordered_symm {a b : Access} (h : ordered a b) : ordered b a := ordered_symm h

/-- The happens-before edge itself, in EVERY execution of the mutex semantics: between the point where
goroutine `t₁` performs `a` holding the table's locks for `a` and the later point where `t₂ ≠ t₁`
performs `b` holding the table's locks for `b`, with `commonLock a b`, the execution contains `t₁`'s
release of a common lock `l` FOLLOWED BY `t₂`'s acquisition of `l` in the mode the table lists for `b`
(access `a` →program-order release →synchronises-with acquire →program-order access `b`; the middle
arrow is the Go memory model's guarantee for `sync.Mutex`/`RWMutex`, assumed). -/
theorem C11_exclusive_lock_happens_before {a b : Access} (hcl : commonLock a b)
    {pre mid : List Ev} {st₁ st₂ : LState} {t₁ t₂ : Nat}
    (hpre : run [] pre = some st₁) (hmid : run st₁ mid = some st₂)
    (ha : ∀ p ∈ a.held, (t₁, p.1, p.2) ∈ st₁) (hb : ∀ p ∈ b.held, (t₂, p.1, p.2) ∈ st₂)
    (hne : t₁ ≠ t₂) :
    ∃ l m₂ x y z, (l, m₂) ∈ b.held ∧ mid = x ++ Ev.rel t₁ l :: (y ++ Ev.acq t₂ l m₂ :: z) :=
  commonLock_hb_between hcl hpre hmid ha hb hne

/-- the hypotheses are satisfiable and the conclusion is the expected pair: reader under RLock, then
writer under Lock of the same RWMutex (with an unrelated event in between) -/
example : ∃ st₁ st₂, run [] [Ev.acq 1 0 .shared] = some st₁ ∧
    run st₁ [Ev.acc 1 0, Ev.rel 1 0, Ev.acc 3 9, Ev.acq 2 0 .excl] = some st₂ ∧
    (1, 0, LMode.shared) ∈ st₁ ∧ (2, 0, LMode.excl) ∈ st₂ :=
  ⟨[(1, 0, .shared)], [(2, 0, .excl)], by decide, by decide, by decide, by decide⟩

/-- Why a channel-close edge orders (`Chan.lean`: a channel is closed at most once and is observed
closed only after that): in EVERY execution in which goroutine `t₁` performs `a` and afterwards closes
the channels the table lists in `a.relAfter`, and goroutine `t₂` performs `b` after having observed
closed the channels the table lists in `b.acqBefore`, with `closeEdge a b`, the execution runs
access `a` … `close(c)` by `t₁` … observation of `c` by `t₂` … access `b` for a common channel `c`
(the close→observe arrow is the Go memory model's guarantee for channels, assumed). -/
theorem C11_close_edge_orders {a b : Access} (hce : closeEdge a b)
    {es x y u w : List CEv} {st : CState} {t₁ t₂ ia ib : Nat} (hrun : crun [] es = some st)
    (hax : es = x ++ CEv.acc t₁ ia :: y)
    (hrel : ∀ c ∈ a.relAfter, ∃ y₁ y₂, y = y₁ ++ CEv.close t₁ c :: y₂)
    (hbx : es = u ++ CEv.acc t₂ ib :: w)
    (hacq : ∀ c ∈ b.acqBefore, ∃ u₁ u₂, u = u₁ ++ CEv.obs t₂ c :: u₂) :
    ∃ c m₁ m₂ m₃, es = x ++ CEv.acc t₁ ia ::
      (m₁ ++ CEv.close t₁ c :: (m₂ ++ CEv.obs t₂ c :: (m₃ ++ CEv.acc t₂ ib :: w))) := by
  obtain ⟨c, hca, hcb⟩ := hce
  obtain ⟨y₁, y₂, hy⟩ := hrel c hca
  obtain ⟨u₁, u₂, hu⟩ := hacq c hcb
  have hobs : es = u₁ ++ CEv.obs t₂ c :: (u₂ ++ CEv.acc t₂ ib :: w) := by
    rw [hbx, hu]; simp
  have hclose : es = (x ++ CEv.acc t₁ ia :: y₁) ++ CEv.close t₁ c :: y₂ := by
    rw [hax, hy]; simp
  obtain ⟨m, hm⟩ := close_before_obs hrun hobs hclose
  exact ⟨c, y₁, m, u₂, by rw [hobs, hm]; simp⟩

/-- the hypotheses are satisfiable: the shape of `ClientServerStream`: write, close(headerC) on the
server goroutine; wait for headerC, read on the client goroutine -/
example : crun [] [CEv.acc 1 0, CEv.close 1 7, CEv.obs 2 7, CEv.acc 2 1] = some [7] := by decide

/-- …and observing before the close, or closing twice, is not an execution -/
example : crun [] [CEv.obs 2 7, CEv.close 1 7] = none ∧ crun [] [CEv.close 1 7, CEv.close 2 7] = none := by
  decide

/-- **The table theorem ⇒ C07 on the table.**  A race-free table that lists, for some location, one
reader that relies on nothing (the `caller:consumer` row of a `published:` location) has no write row
of that location outside construction: the location is frozen.  Together with
`C11_published_readers_free`: lock discipline of the extracted table ⇒ published messages are never
written ⇒ every lock-free reader of them is race free. -/
theorem C11_consumer_row_forces_frozen {t : List Access} {r : Access} (h : raceFree t) (hr : r ∈ t)
    (hb : bareReader r) : frozenIn t r.field :=
  frozen_of_bareReader h hr hb

/-- the hypotheses are satisfiable -/
example : frozenIn [Access.mk 0 .W 0 [] .init 0 [] [], Access.mk 0 .R 1 [] .live 0 [] []] 0 :=
  C11_consumer_row_forces_frozen (r := Access.mk 0 .R 1 [] .live 0 [] []) (by decide) (by simp)
    ((bareReaderB_iff _).mp (by decide))

/-- **C07 ⇒ lock-free readers are race free.**  If a table is race free and a set of locations is
frozen in it (no write row after construction — for the `published:` locations, the contents of the
messages a resource stores and hands out by pointer, that is C07's "published messages are never
written" as the extractor sees the library), then ANY family of reader rows of those locations can be
added — interceptors, include predicates, `Get`/`List` callers, event consumers; any function, any
lock set (none), any goroutine — and the table stays race free. -/
theorem C11_published_readers_free {t readers : List Access} (h : raceFree t)
    (hr : ∀ r ∈ readers, r.kind = Kind.R ∧ frozenIn t r.field) : raceFree (t ++ readers) :=
  raceFree_add_readers h hr

/-- the hypothesis is satisfiable: a message written only while it is constructed, then read by two
unrelated lock-free consumers -/
example : raceFree ([Access.mk 0 .W 0 [] .init 0 [] []] ++
    [Access.mk 0 .R 1 [] .live 0 [] [], Access.mk 0 .R 2 [] .live 0 [] []]) :=
  C11_published_readers_free (by decide) (by
    intro r hr
    simp only [List.mem_cons, List.not_mem_nil, or_false] at hr
    rcases hr with rfl | rfl <;> exact ⟨rfl, (frozenInB_iff _ _).mp (by decide)⟩)

/-- …and the converse, the shape of a write into a live stored message (`mode.StartTime = …` on the
result of an unmasked `Get`): a live write under no lock together with ANY live reader of the same
location — a consumer marshalling an event it received — refutes the discipline of every table that
contains both, whatever locks the reader holds. -/
theorem C11_published_write_refutes {t : List Access} {w r : Access} (hw : w ∈ t) (hr : r ∈ t)
    (hf : w.field = r.field) (hk : w.kind = Kind.W) (hwp : w.phase = Phase.live)
    (hrp : r.phase = Phase.live) (hro : w.role = 0) (hh : w.held = []) (hrel : w.relAfter = [])
    (hacq : w.acqBefore = []) : ¬ raceFree t :=
  fun h => not_ordered_bare_write hwp hrp hro hh hrel hacq (h w hw r hr ⟨hf, Or.inl hk⟩)

/-- the hypotheses are satisfiable (the reader even holds a lock: it does not help) -/
example : ¬ raceFree [Access.mk 0 .W 0 [] .live 0 [] [], Access.mk 0 .R 1 [(0, .excl)] .live 0 [] []] :=
  C11_published_write_refutes (w := Access.mk 0 .W 0 [] .live 0 [] [])
    (r := Access.mk 0 .R 1 [(0, .excl)] .live 0 [] []) (by simp) (by simp) rfl rfl rfl rfl rfl rfl rfl rfl

/-- The decision the kernel runs on the extracted table (`raceFreeG`: one pass over the field-sorted
table, quadratic only inside each run of equal field) never accepts a table that violates the
discipline — for every table, sorted or not. -/
theorem C11_grouped_check_sound (tbl : List Access) (h : raceFreeG tbl = true) : raceFree tbl :=
  raceFreeG_sound tbl h

/-- …and on a table in the generator's order (field numbers never decrease) it is complete: a refuted
`C11_lock_discipline` means the extracted table really violates the discipline (or is not sorted). -/
theorem C11_grouped_check_complete (tbl : List Access) (hs : sortedByField tbl) (h : raceFree tbl) :
    raceFreeG tbl = true :=
  raceFreeG_complete tbl hs h

/-- the hypotheses are satisfiable: two runs, the first one a reader/writer pair under one RWMutex -/
example : raceFreeG [Access.mk 0 .R 0 [(0, .shared)] .live 0 [] [], Access.mk 0 .W 1 [(0, .excl)] .live 0 [] [],
    Access.mk 3 .W 2 [] .init 0 [] []] = true :=
  C11_grouped_check_complete _ ((sortedByFieldB_iff _).mp (by decide)) (by decide)

/-! ### Caller-owned slices: what an in-place `append` does (`Slice.lean`, the meaning of the `arg:` rows) -/

/-- Whatever `append` writes into the existing backing array lies in that array, BEHIND the part the caller
can see (`len ≤ cell`) and inside its capacity — which is why no caller-visible value changes and a test
that looks at values cannot notice the aliasing. -/
theorem C11_append_writes_behind_len (s : Slice) (n : Nat) :
    ∀ c ∈ appendWrites s n, c.1 = s.arr ∧ s.len ≤ c.2 ∧ c.2 < s.cap := by
  intro c hc
  have h := appendWrites_mem hc
  exact ⟨h.2.1, h.2.2.1, by omega⟩

/-- Two calls (on any two goroutines) that each append at least one element to the SAME slice header with
room for it write a common cell, `len`, of the shared backing array: a write/write conflict whatever the
numbers of elements — the shape of `opts = append(opts, o)` on a caller's option slice and of
`append(mask.GetPaths(), p...)` on a caller's mask. -/
theorem C11_append_spare_capacity_conflicts (s : Slice) (n m : Nat) (hn : 0 < n) (hm : 0 < m)
    (hsn : s.len + n ≤ s.cap) (hsm : s.len + m ≤ s.cap) :
    ∃ c, c ∈ appendWrites s n ∧ c ∈ appendWrites s m :=
  ⟨(s.arr, s.len), appendWrites_first hn hsn, appendWrites_first hm hsm⟩

/-- the hypotheses are satisfiable: three paths in an array of four (a mask decoded from the wire) -/
example : ∃ c, c ∈ appendWrites ⟨7, 3, 4⟩ 1 ∧ c ∈ appendWrites ⟨7, 3, 4⟩ 1 :=
  C11_append_spare_capacity_conflicts ⟨7, 3, 4⟩ 1 1 (by decide) (by decide) (by decide) (by decide)

/-- The repair the extractor accepts: appending to `s[:len(s):len(s)]` (or to any slice without room for
the new elements) never writes the existing array, for every slice and every number of elements; the
elements the result shares with `s` are only read. -/
theorem C11_append_full_slice_private (s : Slice) (n : Nat) : appendWrites s.full n = [] := by
  cases n with
  | zero => simp [appendWrites]
  | succ k => exact appendWrites_nil_of_no_room (by simp [Slice.full])

/-- and conversely the in-place case is exactly "there is room": the model's decision, both ways -/
theorem C11_append_in_place_iff (s : Slice) (n : Nat) (hn : 0 < n) :
    appendWrites s n ≠ [] ↔ s.len + n ≤ s.cap := by
  constructor
  · intro h
    cases hw : appendWrites s n with
    | nil => exact absurd hw h
    | cons c rest => exact (appendWrites_mem (c := c) (by simp [hw])).1
  · intro h hnil
    have := appendWrites_first hn h
    simp [hnil] at this

end ScVerif.C11
