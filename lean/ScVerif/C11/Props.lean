import ScVerif.C11.LocksetLemmas
import ScVerif.C11.Trace
/-!
C11 — property theorems (claim level: **partial**, see props/C11.json).

`C11_lock_discipline` (PropsTable.lean) is re-checked on every run against the table regenerated from
/repo's sources.  The theorems of this file hold for every table; they are what makes the statement more than a lookup:
the executable check decides the Prop-level discipline, the discipline is implied by the classical
guard discipline, is monotone, composes, and is refuted by a write under a shared lock.
-/
namespace ScVerif.C11

/-- The executable check used by the driver, the harness and `decide` is exactly the specification. -/
theorem C11_check_sound_complete (tbl : List Access) : raceFreeB tbl = true ↔ raceFree tbl :=
  raceFreeB_iff tbl

/-- Lock discipline ⇒ race freedom, for every table: a guard mutex per field held by every live
access, exclusively by every live write. -/
theorem C11_guarded_raceFree (t : List Access) (guard : Nat → Nat)
    (hr : ∀ a ∈ t, a.phase = Phase.live → ∃ m, (guard a.field, m) ∈ a.held)
    (hw : ∀ a ∈ t, a.phase = Phase.live → a.kind = Kind.W → (guard a.field, LMode.excl) ∈ a.held) :
    raceFree t :=
  raceFree_of_guarded t guard hr hw

/-- Monotone: dropping rows keeps the discipline (so a sub-table of a verified table is verified). -/
theorem C11_raceFree_mono {t₁ t₂ : List Access} (hsub : ∀ a ∈ t₁, a ∈ t₂) (h : raceFree t₂) : raceFree t₁ :=
  raceFree_of_subset hsub h

/-- Compositional: per-package tables over disjoint fields combine. -/
theorem C11_raceFree_compose {t₁ t₂ : List Access} (h₁ : raceFree t₁) (h₂ : raceFree t₂)
    (hd : ∀ a ∈ t₁, ∀ b ∈ t₂, a.field ≠ b.field) : raceFree (t₁ ++ t₂) :=
  raceFree_append_disjoint h₁ h₂ hd

/-- A live write on an arbitrary goroutine that holds its mutexes only in shared mode (and has no
close edge to itself) refutes the discipline of every table containing it — the shape of the `genID`
defect (`config.rng` written under `Collection.mu.RLock`). -/
theorem C11_shared_write_refutes {t : List Access} {a : Access} (ha : a ∈ t) (hw : a.kind = Kind.W)
    (hp : a.phase = Phase.live) (hr : a.role = 0) (hh : ∀ p ∈ a.held, p.2 = LMode.shared)
    (hc : ∀ c ∈ a.relAfter, c ∉ a.acqBefore) : ¬ raceFree t :=
  not_raceFree_of_self ha hw (not_ordered_shared_self a hp hr hh hc)

/-- the hypothesis of `C11_shared_write_refutes` is satisfiable: the pre-fix `genID` row -/
example : ¬ raceFree [Access.mk 0 .W 0 [(0, .shared)] .live 0 [] []] :=
  C11_shared_write_refutes (List.mem_singleton.mpr rfl) rfl rfl rfl (by simp) (by simp)

/-- Why a common mutex with an exclusive side orders: in EVERY execution of the mutex semantics
(`Trace.lean`: one exclusive holder or any number of shared holders), if the goroutine executing `a`
holds the locks the table lists for `a`, and a different goroutine later executes `b` holding the locks
listed for `b`, and the table says `commonLock a b`, then the first goroutine released a common lock
in between (the Go memory model turns that release/acquire pair into happens-before). -/
theorem C11_exclusive_lock_orders {a b : Access} (hcl : commonLock a b)
    {pre mid : List Ev} {st₁ st₂ : LState} {t₁ t₂ : Nat}
    (hpre : run [] pre = some st₁) (hmid : run st₁ mid = some st₂)
    (ha : ∀ p ∈ a.held, (t₁, p.1, p.2) ∈ st₁) (hb : ∀ p ∈ b.held, (t₂, p.1, p.2) ∈ st₂)
    (hne : t₁ ≠ t₂) : ∃ l, Ev.rel t₁ l ∈ mid :=
  commonLock_release_between hcl hpre hmid ha hb hne

/-- the hypotheses of `C11_exclusive_lock_orders` are satisfiable: writer then reader of one RWMutex -/
example : ∃ st₁ st₂, run [] [Ev.acq 1 0 .excl] = some st₁ ∧
    run st₁ [Ev.acc 1 0, Ev.rel 1 0, Ev.acq 2 0 .shared] = some st₂ ∧
    (1, 0, LMode.excl) ∈ st₁ ∧ (2, 0, LMode.shared) ∈ st₂ :=
  ⟨[(1, 0, .excl)], [(2, 0, .shared)], by decide, by decide, by decide, by decide⟩

/-- …and two `RLock` holders are NOT ordered: the semantics has an execution in which both hold the
lock at once, which is why `commonLock` demands an exclusive side. -/
theorem C11_shared_lock_does_not_order :
    ∃ st, run [] [Ev.acq 1 0 .shared, Ev.acq 2 0 .shared, Ev.acc 1 0, Ev.acc 2 0] = some st
      ∧ (1, 0, LMode.shared) ∈ st ∧ (2, 0, LMode.shared) ∈ st :=
  shared_overlap

theorem C11_ordered_symm {a b : Access} (h : ordered a b) : ordered b a := ordered_symm h

end ScVerif.C11
