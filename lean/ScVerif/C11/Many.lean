import ScVerif.C11.ExecCheck
import ScVerif.C11.ExecNeed
import ScVerif.C11.ExecSync
/-!
C11 — MANY objects.  `Exec.lean` is the view of ONE object: its lock and channel numbers are the table's
per-type numbers.  A running program has many instances of a type (and objects of many types) at once; lock 0
of one `Collection` is not lock 0 of another.  This file puts any number of objects side by side:

* an event `(o, e)` is the event `e` of `Exec.lean` on object `o`; the state is one `XState` per object; a
  step changes the state of its object only (`mstep`);
* happens-before (`MHB`) has program order ACROSS objects (a goroutine's events are ordered whatever
  objects they touch) and the four synchronisation edges only WITHIN an object (an unlock of object `o`
  synchronises with a later lock of the same lock of the same object, not with the lock of the same
  number of another instance);

and proves that the one-object view is sound and loses nothing:

* `proj_run` / `mrun_of_proj`: a list of events is an execution iff every object's projection is an
  execution of `Exec.lean` — instances never block one another;
* `hb_lift`: happens-before of an object's projection is happens-before of the whole execution, at the
  positions the projection's events have in it (`pos`);
* `many_discipline_orders`: if the projection on object `o` conforms to a table that satisfies the lock
  discipline, then in the whole execution any two conflicting accesses to `o` by different goroutines are
  ordered by happens-before — whatever happens on all other objects, which need not conform to anything;
* `mhb_needs_own_release` / `mhb_needs_own_acquire`: whole-program happens-before leaves a goroutine through
  its own release and enters through the other's own acquire, on whatever objects (round 7's statements, now
  with the lent argument and the resource it is lent to as two objects: `exLent`);
* `onObj`, `many_noRace_iff`: a one-object execution is a many-object one with the same happens-before, so the
  discipline is also NECESSARY in the many-object world;
* `mhb_needs_sync` + the example `exOther`: holding the lock of ANOTHER instance orders nothing (the
  projection does not conform: the row's lock is not held on the object that is accessed).
-/
namespace ScVerif.C11

/-- an event on an object -/
abbrev MEv := Nat × XEv

/-- one step of the many-object semantics: the event's object steps, all others stay (`cr o` is the
creator of object `o`) -/
def mstep (cr : Nat → Nat) (S : Nat → XState) (e : MEv) : Option (Nat → XState) :=
  (xstep (cr e.1) (S e.1) e.2).map fun s' => fun o => if o = e.1 then s' else S o

def mrun (cr : Nat → Nat) (S : Nat → XState) : List MEv → Option (Nat → XState)
  | [] => some S
  | e :: es => (mstep cr S e).bind fun S' => mrun cr S' es

def minit : Nat → XState := fun _ => XState.init

/-- the events of object `o`, in order -/
def proj (o : Nat) : List MEv → List XEv
  | [] => []
  | e :: es => if e.1 = o then e.2 :: proj o es else proj o es

/-- the position in the whole execution of the `i`-th event of object `o` -/
def pos (o : Nat) : List MEv → Nat → Nat
  | [], i => i
  | e :: es, i =>
    if e.1 = o then (match i with | 0 => 0 | i + 1 => pos o es i + 1) else pos o es i + 1

/-- Happens-before on the positions of a many-object execution: program order (across objects), the four
synchronisation edges (within one object), transitivity. -/
inductive MHB (es : List MEv) : Nat → Nat → Prop
  | po {i j : Nat} {e₁ e₂ : MEv} : i < j → es[i]? = some e₁ → es[j]? = some e₂ → e₁.2.thr = e₂.2.thr → MHB es i j
  | lock {i j o t t' l : Nat} {m₁ m₂ : LMode} : i < j → es[i]? = some (o, XEv.rel t l m₁) →
      es[j]? = some (o, XEv.acq t' l m₂) → (m₁ = LMode.excl ∨ m₂ = LMode.excl) → MHB es i j
  | chan {i j o t t' c : Nat} : i < j → es[i]? = some (o, XEv.close t c) → es[j]? = some (o, XEv.obs t' c) → MHB es i j
  | publ {i j o t t' : Nat} : i < j → es[i]? = some (o, XEv.pub t) → es[j]? = some (o, XEv.get t') → MHB es i j
  | join {i j o t t' : Nat} : i < j → es[i]? = some (o, XEv.leave t) → es[j]? = some (o, XEv.join t') → MHB es i j
  | trans {i j k : Nat} : MHB es i j → MHB es j k → MHB es i k

/-! ### executions and projections -/

/-- the projection of an execution on an object is an execution of that object -/
theorem proj_run {cr : Nat → Nat} (o : Nat) {es : List MEv} : ∀ {S S' : Nat → XState}, mrun cr S es = some S' →
    xrun (cr o) (S o) (proj o es) = some (S' o) := by
  induction es with
  | nil => intro S S' h; simp only [mrun] at h; cases h; rfl
  | cons e es ih =>
    intro S S' h
    simp only [mrun, mstep] at h
    cases hx : xstep (cr e.1) (S e.1) e.2 with
    | none => rw [hx] at h; simp at h
    | some s' =>
      rw [hx] at h
      simp only [Option.map_some, Option.bind_some] at h
      have := ih h
      by_cases ho : e.1 = o
      · simp only [proj, ho, if_true, xrun]
        rw [ho] at hx
        rw [hx]
        simp only [Option.bind_some]
        simpa [ho] using this
      · have ho' : ¬ o = e.1 := fun h => ho h.symm
        simp only [proj, ho, if_false]
        simpa [ho'] using this

/-- conversely: if every object's projection is an execution, the whole list is one (no object ever blocks
another) -/
theorem mrun_of_proj {cr : Nat → Nat} {es : List MEv} : ∀ {S : Nat → XState},
    (∀ o, ∃ s, xrun (cr o) (S o) (proj o es) = some s) → ∃ S', mrun cr S es = some S' := by
  induction es with
  | nil => intro S _; exact ⟨S, rfl⟩
  | cons e es ih =>
    intro S h
    obtain ⟨s, hs⟩ := h e.1
    simp only [proj, if_true, xrun] at hs
    cases hx : xstep (cr e.1) (S e.1) e.2 with
    | none => rw [hx] at hs; simp at hs
    | some s' =>
      rw [hx] at hs
      simp only [Option.bind_some] at hs
      have : ∃ S', mrun cr (fun o => if o = e.1 then s' else S o) es = some S' := by
        apply ih
        intro o
        by_cases ho : o = e.1
        · subst ho; exact ⟨s, by simpa using hs⟩
        · obtain ⟨s2, hs2⟩ := h o
          have ho' : ¬ e.1 = o := fun h => ho h.symm
          simp only [proj, ho', if_false] at hs2
          exact ⟨s2, by simpa [ho] using hs2⟩
      obtain ⟨S', hS'⟩ := this
      exact ⟨S', by simp only [mrun, mstep, hx, Option.map_some, Option.bind_some]; exact hS'⟩

/-! ### positions -/

theorem pos_get (o : Nat) : ∀ {es : List MEv} {i : Nat} {x : XEv}, (proj o es)[i]? = some x →
    es[pos o es i]? = some (o, x) := by
  intro es
  induction es with
  | nil => intro i x h; simp [proj] at h
  | cons e es ih =>
    intro i x h
    by_cases ho : e.1 = o
    · simp only [proj, ho, if_true] at h
      cases i with
      | zero =>
        simp only [List.getElem?_cons_zero, Option.some.injEq] at h
        simp only [pos, ho, if_true, List.getElem?_cons_zero]
        rw [← h, ← ho]
      | succ i =>
        simp only [List.getElem?_cons_succ] at h
        simp only [pos, ho, if_true, List.getElem?_cons_succ]
        exact ih h
    · simp only [proj, ho, if_false] at h
      simp only [pos, ho, if_false, List.getElem?_cons_succ]
      exact ih h

theorem pos_lt (o : Nat) : ∀ (es : List MEv) {i j : Nat}, i < j → pos o es i < pos o es j := by
  intro es
  induction es with
  | nil => intro i j h; simpa [pos] using h
  | cons e es ih =>
    intro i j h
    by_cases ho : e.1 = o
    · simp only [pos, ho, if_true]
      cases j with
      | zero => omega
      | succ j =>
        cases i with
        | zero => simp
        | succ i => have := ih (i := i) (j := j) (by omega); simp only; omega
    · simp only [pos, ho, if_false]
      have := ih h
      omega

/-- every event of object `o` in the whole execution is an event of the projection -/
theorem pos_surj (o : Nat) : ∀ {es : List MEv} {p : Nat} {x : XEv}, es[p]? = some (o, x) →
    ∃ i, pos o es i = p ∧ (proj o es)[i]? = some x := by
  intro es
  induction es with
  | nil => intro p x h; simp at h
  | cons e es ih =>
    intro p x h
    cases p with
    | zero =>
      simp only [List.getElem?_cons_zero, Option.some.injEq] at h
      subst h
      exact ⟨0, by simp [pos], by simp [proj]⟩
    | succ p =>
      simp only [List.getElem?_cons_succ] at h
      obtain ⟨i, hi, hx⟩ := ih h
      by_cases ho : e.1 = o
      · exact ⟨i + 1, by simp [pos, ho, hi], by simp [proj, ho, hx]⟩
      · exact ⟨i, by simp [pos, ho, hi], by simp [proj, ho, hx]⟩

/-! ### happens-before -/

theorem mhb_lt {es : List MEv} {i j : Nat} (h : MHB es i j) : i < j := by
  induction h with
  | po h _ _ _ => exact h
  | lock h _ _ _ => exact h
  | chan h _ _ => exact h
  | publ h _ _ => exact h
  | join h _ _ => exact h
  | trans _ _ ih₁ ih₂ => omega

theorem mhb_valid_right {es : List MEv} {i j : Nat} (h : MHB es i j) : ∃ e, es[j]? = some e := by
  induction h with
  | po _ _ h _ => exact ⟨_, h⟩
  | lock _ _ h _ => exact ⟨_, h⟩
  | chan _ _ h => exact ⟨_, h⟩
  | publ _ _ h => exact ⟨_, h⟩
  | join _ _ h => exact ⟨_, h⟩
  | trans _ _ _ ih₂ => exact ih₂

/-- happens-before of an object's own execution is happens-before of the whole -/
theorem hb_lift (o : Nat) {es : List MEv} {i j : Nat} (h : HB (proj o es) i j) :
    MHB es (pos o es i) (pos o es j) := by
  induction h with
  | po hlt h₁ h₂ ht => exact MHB.po (pos_lt o es hlt) (pos_get o h₁) (pos_get o h₂) ht
  | lock hlt h₁ h₂ hx => exact MHB.lock (pos_lt o es hlt) (pos_get o h₁) (pos_get o h₂) hx
  | chan hlt h₁ h₂ => exact MHB.chan (pos_lt o es hlt) (pos_get o h₁) (pos_get o h₂)
  | publ hlt h₁ h₂ => exact MHB.publ (pos_lt o es hlt) (pos_get o h₁) (pos_get o h₂)
  | join hlt h₁ h₂ => exact MHB.join (pos_lt o es hlt) (pos_get o h₁) (pos_get o h₂)
  | trans _ _ ih₁ ih₂ => exact MHB.trans ih₁ ih₂

/-- happens-before between two goroutines needs a release (unlock, close, publication, leave) of SOME object
at or after the first position and before the second -/
theorem mhb_needs_sync {es : List MEv} {i j : Nat} (h : MHB es i j) : ∀ {e₁ e₂ : MEv}, es[i]? = some e₁ →
    es[j]? = some e₂ → e₁.2.thr ≠ e₂.2.thr → ∃ p e, i ≤ p ∧ p < j ∧ es[p]? = some e ∧ e.2.isRelease = true := by
  induction h with
  | po _ h₁ h₂ ht =>
    intro e₁ e₂ g₁ g₂ hne
    rw [h₁] at g₁; rw [h₂] at g₂; cases g₁; cases g₂; exact absurd ht hne
  | lock hlt h₁ _ _ => intro _ _ _ _ _; exact ⟨_, _, Nat.le_refl _, hlt, h₁, rfl⟩
  | chan hlt h₁ _ => intro _ _ _ _ _; exact ⟨_, _, Nat.le_refl _, hlt, h₁, rfl⟩
  | publ hlt h₁ _ => intro _ _ _ _ _; exact ⟨_, _, Nat.le_refl _, hlt, h₁, rfl⟩
  | join hlt h₁ _ => intro _ _ _ _ _; exact ⟨_, _, Nat.le_refl _, hlt, h₁, rfl⟩
  | @trans i k j hik hkj ih₁ ih₂ =>
    intro e₁ e₂ g₁ g₂ hne
    obtain ⟨ek, hk⟩ := mhb_valid_right hik
    have l₁ := mhb_lt hik
    have l₂ := mhb_lt hkj
    by_cases ht : e₁.2.thr = ek.2.thr
    · obtain ⟨p, e, h1, h2, h3, h4⟩ := ih₂ hk g₂ (by rw [← ht]; exact hne)
      exact ⟨p, e, by omega, h2, h3, h4⟩
    · obtain ⟨p, e, h1, h2, h3, h4⟩ := ih₁ g₁ hk ht
      exact ⟨p, e, h1, by omega, h3, h4⟩

/-- is there a release of any object at a position in `[i, j)` -/
def msyncBetween (es : List MEv) (i j : Nat) : Bool :=
  (List.range j).any fun p => decide (i ≤ p) && (match es[p]? with | some e => e.2.isRelease | none => false)

theorem not_mhb_of_no_sync {es : List MEv} {i j : Nat} {e₁ e₂ : MEv} (h₁ : es[i]? = some e₁)
    (h₂ : es[j]? = some e₂) (hne : e₁.2.thr ≠ e₂.2.thr) (hs : msyncBetween es i j = false) : ¬ MHB es i j := by
  intro hb
  obtain ⟨p, e, hip, hpj, hep, hrel⟩ := mhb_needs_sync hb h₁ h₂ hne
  have : msyncBetween es i j = true := by
    refine List.any_eq_true.mpr ⟨p, List.mem_range.mpr hpj, ?_⟩
    simp [hip, hep, hrel]
  rw [hs] at this
  cases this

/-! ### the one-object discipline, in a many-object execution -/

/-- **The one-object view is sound.**  In a many-object execution, if the events of object `o` conform to a
table that satisfies the lock discipline, two conflicting accesses to `o` by different goroutines are
ordered by happens-before of the whole execution.  Nothing is asked of the other objects. -/
theorem many_discipline_orders {cr : Nat → Nat} {ρ : Nat → Nat} {tbl : List Access} {es : List MEv}
    {Sf : Nat → XState} {o : Nat} (hrf : raceFree tbl) (hv : mrun cr minit es = some Sf)
    (hc : Conforms (cr o) ρ tbl (proj o es)) {p q t₁ t₂ : Nat} {a b : Access} (hpq : p < q)
    (hp : es[p]? = some (o, XEv.acc t₁ a)) (hq : es[q]? = some (o, XEv.acc t₂ b)) (hne : t₁ ≠ t₂)
    (hcf : conflict a b) : MHB es p q := by
  obtain ⟨i, hi, hxi⟩ := pos_surj o hp
  obtain ⟨j, hj, hxj⟩ := pos_surj o hq
  have hij : i < j := by
    rcases Nat.lt_trichotomy i j with h | h | h
    · exact h
    · subst h; omega
    · have := pos_lt o es h; omega
  have hv' : xrun (cr o) XState.init (proj o es) = some (Sf o) := proj_run o hv
  have := hb_lift o (discipline_orders hrf hv' hc hij hxi hxj hne hcf)
  rw [hi, hj] at this
  exact this

/-- either order, one table per object -/
theorem many_no_data_race {cr : Nat → Nat} {ρ : Nat → Nat → Nat} {tbl : Nat → List Access}
    {es : List MEv} {Sf : Nat → XState} (hrf : ∀ o, raceFree (tbl o)) (hv : mrun cr minit es = some Sf)
    (hc : ∀ o, Conforms (cr o) (ρ o) (tbl o) (proj o es)) {o p q t₁ t₂ : Nat} {a b : Access}
    (hp : es[p]? = some (o, XEv.acc t₁ a)) (hq : es[q]? = some (o, XEv.acc t₂ b)) (hne : t₁ ≠ t₂)
    (hcf : conflict a b) : MHB es p q ∨ MHB es q p := by
  rcases Nat.lt_trichotomy p q with h | h | h
  · exact Or.inl (many_discipline_orders (hrf o) hv (hc o) h hp hq hne hcf)
  · subst h; rw [hp] at hq; cases hq; exact absurd rfl hne
  · exact Or.inr (many_discipline_orders (hrf o) hv (hc o) h hq hp (Ne.symm hne) ⟨hcf.1.symm, hcf.2.symm⟩)

/-- run as far as the semantics allows: number of accepted events (driver op `many`) -/
def mrunCount (cr : Nat → Nat) (S : Nat → XState) : List MEv → Nat × (Nat → XState)
  | [] => (0, S)
  | e :: es =>
    match mstep cr S e with
    | some S' => let r := mrunCount cr S' es; (r.1 + 1, r.2)
    | none => (0, S)

theorem mrunCount_full {cr : Nat → Nat} {es : List MEv} : ∀ {S Sf : Nat → XState}, mrun cr S es = some Sf →
    (mrunCount cr S es).1 = es.length := by
  induction es with
  | nil => intro S Sf _; rfl
  | cons e es ih =>
    intro S Sf h
    simp only [mrun] at h
    cases hm : mstep cr S e with
    | none => rw [hm] at h; simp at h
    | some S' =>
      rw [hm] at h
      simp only [Option.bind_some] at h
      simp only [mrunCount, hm, List.length_cons]
      rw [ih h]

def mvalid (cr : Nat → Nat) (es : List MEv) : Bool := (mrun cr minit es).isSome

theorem mvalid_run {cr : Nat → Nat} {es : List MEv} (h : mvalid cr es = true) : ∃ Sf, mrun cr minit es = some Sf :=
  Option.isSome_iff_exists.mp h

/-! ### examples -/

/-- two collections (objects 0 and 1) created by goroutine 0; goroutines 1 and 2 hold "lock 0" exclusively
AT THE SAME TIME, each on its own object, and write; later goroutine 2 writes object 0 under object 0's lock -/
def exTwo : List MEv :=
  [(0, .pub 0), (1, .pub 0), (0, .get 1), (1, .get 2), (0, .get 2),
   (0, .acq 1 0 .excl), (1, .acq 2 0 .excl), (0, .acc 1 exW), (1, .acc 2 exW), (0, .rel 1 0 .excl),
   (1, .rel 2 0 .excl), (0, .acq 2 0 .excl), (0, .acc 2 exW), (0, .rel 2 0 .excl)]

/-- goroutine 1 holds the lock of object 0 while it writes object 1 (a callee reaching a second instance of
the type while the caller holds the first one's lock); goroutine 2 writes object 1 under object 1's lock -/
def exOther : List MEv :=
  [(0, .pub 0), (1, .pub 0), (0, .get 1), (1, .get 1), (1, .get 2),
   (0, .acq 1 0 .excl), (1, .acc 1 exW), (1, .acq 2 0 .excl), (1, .acc 2 exW), (1, .rel 2 0 .excl),
   (0, .rel 1 0 .excl)]

/-! ### who has to synchronise, across objects -/

theorem mhb_valid_left {es : List MEv} {i j : Nat} (h : MHB es i j) : ∃ e, es[i]? = some e := by
  induction h with
  | po _ h _ _ => exact ⟨_, h⟩
  | lock _ h _ _ => exact ⟨_, h⟩
  | chan _ h _ => exact ⟨_, h⟩
  | publ _ h _ => exact ⟨_, h⟩
  | join _ h _ => exact ⟨_, h⟩
  | trans _ _ ih₁ _ => exact ih₁

theorem mhb_needs_own_release {es : List MEv} {i j : Nat} (h : MHB es i j) : ∀ {e₁ e₂ : MEv}, es[i]? = some e₁ →
    es[j]? = some e₂ → e₁.2.thr ≠ e₂.2.thr →
    ∃ p e, i ≤ p ∧ p < j ∧ es[p]? = some e ∧ e.2.isRelease = true ∧ e.2.thr = e₁.2.thr := by
  induction h with
  | po _ h₁ h₂ ht =>
    intro e₁ e₂ g₁ g₂ hne
    rw [h₁] at g₁; rw [h₂] at g₂; cases g₁; cases g₂; exact absurd ht hne
  | lock hlt h₁ _ _ =>
    intro e₁ _ g₁ _ _; rw [h₁] at g₁; cases g₁; exact ⟨_, _, Nat.le_refl _, hlt, h₁, rfl, rfl⟩
  | chan hlt h₁ _ =>
    intro e₁ _ g₁ _ _; rw [h₁] at g₁; cases g₁; exact ⟨_, _, Nat.le_refl _, hlt, h₁, rfl, rfl⟩
  | publ hlt h₁ _ =>
    intro e₁ _ g₁ _ _; rw [h₁] at g₁; cases g₁; exact ⟨_, _, Nat.le_refl _, hlt, h₁, rfl, rfl⟩
  | join hlt h₁ _ =>
    intro e₁ _ g₁ _ _; rw [h₁] at g₁; cases g₁; exact ⟨_, _, Nat.le_refl _, hlt, h₁, rfl, rfl⟩
  | @trans i k j hik hkj ih₁ ih₂ =>
    intro e₁ e₂ g₁ g₂ hne
    obtain ⟨ek, hk⟩ := mhb_valid_right hik
    have l₁ := mhb_lt hik
    have l₂ := mhb_lt hkj
    by_cases ht : e₁.2.thr = ek.2.thr
    · obtain ⟨p, e, h1, h2, h3, h4, h5⟩ := ih₂ hk g₂ (by rw [← ht]; exact hne)
      exact ⟨p, e, by omega, h2, h3, h4, by rw [h5, ht]⟩
    · obtain ⟨p, e, h1, h2, h3, h4, h5⟩ := ih₁ g₁ hk ht
      exact ⟨p, e, h1, by omega, h3, h4, h5⟩

theorem mhb_needs_own_acquire {es : List MEv} {i j : Nat} (h : MHB es i j) : ∀ {e₁ e₂ : MEv}, es[i]? = some e₁ →
    es[j]? = some e₂ → e₁.2.thr ≠ e₂.2.thr →
    ∃ q e, i < q ∧ q ≤ j ∧ es[q]? = some e ∧ e.2.isAcquire = true ∧ e.2.thr = e₂.2.thr := by
  induction h with
  | po _ h₁ h₂ ht =>
    intro e₁ e₂ g₁ g₂ hne
    rw [h₁] at g₁; rw [h₂] at g₂; cases g₁; cases g₂; exact absurd ht hne
  | lock hlt _ h₂ _ =>
    intro _ e₂ _ g₂ _; rw [h₂] at g₂; cases g₂; exact ⟨_, _, hlt, Nat.le_refl _, h₂, rfl, rfl⟩
  | chan hlt _ h₂ =>
    intro _ e₂ _ g₂ _; rw [h₂] at g₂; cases g₂; exact ⟨_, _, hlt, Nat.le_refl _, h₂, rfl, rfl⟩
  | publ hlt _ h₂ =>
    intro _ e₂ _ g₂ _; rw [h₂] at g₂; cases g₂; exact ⟨_, _, hlt, Nat.le_refl _, h₂, rfl, rfl⟩
  | join hlt _ h₂ =>
    intro _ e₂ _ g₂ _; rw [h₂] at g₂; cases g₂; exact ⟨_, _, hlt, Nat.le_refl _, h₂, rfl, rfl⟩
  | @trans i k j hik hkj ih₁ ih₂ =>
    intro e₁ e₂ g₁ g₂ hne
    obtain ⟨ek, hk⟩ := mhb_valid_right hik
    have l₁ := mhb_lt hik
    have l₂ := mhb_lt hkj
    by_cases ht : ek.2.thr = e₂.2.thr
    · obtain ⟨q, e, h1, h2, h3, h4, h5⟩ := ih₁ g₁ hk (by rw [ht]; exact hne)
      exact ⟨q, e, h1, by omega, h3, h4, by rw [h5, ht]⟩
    · obtain ⟨q, e, h1, h2, h3, h4, h5⟩ := ih₂ hk g₂ ht
      exact ⟨q, e, by omega, h2, h3, h4, h5⟩

/-- goroutine `t` executes no release, on any object, at the positions `[i, j)` -/
def mnoReleaseBy (es : List MEv) (t i j : Nat) : Bool :=
  (List.range (j - i)).all fun d => match es[i + d]? with
    | some e => !(e.2.isRelease && e.2.thr == t)
    | none => true

/-- …and no acquire, on any object, at the positions `(i, j]` -/
def mnoAcquireBy (es : List MEv) (t i j : Nat) : Bool :=
  (List.range (j - i)).all fun d => match es[i + 1 + d]? with
    | some e => !(e.2.isAcquire && e.2.thr == t)
    | none => true

theorem not_mhb_of_no_own_release {es : List MEv} {i j : Nat} {e₁ e₂ : MEv} (h₁ : es[i]? = some e₁)
    (h₂ : es[j]? = some e₂) (hne : e₁.2.thr ≠ e₂.2.thr) (hn : mnoReleaseBy es e₁.2.thr i j = true) : ¬ MHB es i j := by
  intro h
  obtain ⟨p, e, hp1, hp2, hp3, hp4, hp5⟩ := mhb_needs_own_release h h₁ h₂ hne
  have := (List.all_eq_true.mp hn) (p - i) (List.mem_range.mpr (by omega))
  have hpi : i + (p - i) = p := by omega
  rw [hpi, hp3] at this
  simp [hp4, hp5] at this

theorem not_mhb_of_no_own_acquire {es : List MEv} {i j : Nat} {e₁ e₂ : MEv} (h₁ : es[i]? = some e₁)
    (h₂ : es[j]? = some e₂) (hne : e₁.2.thr ≠ e₂.2.thr) (hn : mnoAcquireBy es e₂.2.thr i j = true) : ¬ MHB es i j := by
  intro h
  obtain ⟨q, e, hq1, hq2, hq3, hq4, hq5⟩ := mhb_needs_own_acquire h h₁ h₂ hne
  have := (List.all_eq_true.mp hn) (q - (i + 1)) (List.mem_range.mpr (by omega))
  have hqi : i + 1 + (q - (i + 1)) = q := by omega
  rw [hqi, hq3] at this
  simp [hq4, hq5] at this

/-! ### a one-object execution, seen as a many-object one -/

/-- all events on object `o` -/
def onObj (o : Nat) (es : List XEv) : List MEv := es.map fun e => (o, e)

theorem onObj_inv {o : Nat} {es : List XEv} {k : Nat} {e : MEv} (h : (onObj o es)[k]? = some e) :
    ∃ x, es[k]? = some x ∧ e = (o, x) := by
  simp only [onObj, List.getElem?_map, Option.map_eq_some_iff] at h
  obtain ⟨x, hx, he⟩ := h
  exact ⟨x, hx, he.symm⟩

theorem onObj_get {o : Nat} {es : List XEv} {k : Nat} {x : XEv} (h : es[k]? = some x) :
    (onObj o es)[k]? = some (o, x) := by
  simp [onObj, List.getElem?_map, h]

theorem proj_onObj_self (o : Nat) : ∀ (es : List XEv), proj o (onObj o es) = es
  | [] => rfl
  | e :: es => by simp only [onObj, List.map_cons, proj, if_true]; rw [← onObj, proj_onObj_self o es]

theorem proj_onObj_other {o o' : Nat} (h : o ≠ o') : ∀ (es : List XEv), proj o' (onObj o es) = []
  | [] => rfl
  | e :: es => by simp only [onObj, List.map_cons, proj, h, if_false]; rw [← onObj, proj_onObj_other h es]

/-- with all events on one object, the many-object happens-before is that object's -/
theorem hb_of_mhb_onObj {o : Nat} {es : List XEv} {i j : Nat} (h : MHB (onObj o es) i j) : HB es i j := by
  induction h with
  | po hlt h₁ h₂ ht =>
    obtain ⟨x₁, g₁, rfl⟩ := onObj_inv h₁
    obtain ⟨x₂, g₂, rfl⟩ := onObj_inv h₂
    exact HB.po hlt g₁ g₂ ht
  | lock hlt h₁ h₂ hx =>
    obtain ⟨x₁, g₁, e₁⟩ := onObj_inv h₁
    obtain ⟨x₂, g₂, e₂⟩ := onObj_inv h₂
    cases e₁; cases e₂
    exact HB.lock hlt g₁ g₂ hx
  | chan hlt h₁ h₂ =>
    obtain ⟨x₁, g₁, e₁⟩ := onObj_inv h₁
    obtain ⟨x₂, g₂, e₂⟩ := onObj_inv h₂
    cases e₁; cases e₂
    exact HB.chan hlt g₁ g₂
  | publ hlt h₁ h₂ =>
    obtain ⟨x₁, g₁, e₁⟩ := onObj_inv h₁
    obtain ⟨x₂, g₂, e₂⟩ := onObj_inv h₂
    cases e₁; cases e₂
    exact HB.publ hlt g₁ g₂
  | join hlt h₁ h₂ =>
    obtain ⟨x₁, g₁, e₁⟩ := onObj_inv h₁
    obtain ⟨x₂, g₂, e₂⟩ := onObj_inv h₂
    cases e₁; cases e₂
    exact HB.join hlt g₁ g₂
  | trans _ _ ih₁ ih₂ => exact HB.trans ih₁ ih₂

theorem mrun_onObj {cr : Nat → Nat} {o : Nat} {es : List XEv} {sf : XState}
    (hv : xrun (cr o) XState.init es = some sf) : ∃ S', mrun cr minit (onObj o es) = some S' := by
  apply mrun_of_proj
  intro o'
  by_cases h : o = o'
  · subst h; rw [proj_onObj_self]; exact ⟨sf, hv⟩
  · rw [proj_onObj_other h]; exact ⟨minit o', rfl⟩

theorem conforms_nil (cr : Nat) (ρ : Nat → Nat) (tbl : List Access) : Conforms cr ρ tbl [] :=
  ⟨by intro k t a h; simp at h, by intro k t a s h; simp at h, by intro k t a s h; simp at h,
   by intro k t a h; simp at h, by intro k t a h; simp at h, by intro k t a h; simp at h⟩

/-- data-race freedom of the many-object executions of a table (every object conforms to it) -/
def MNoRace (tbl : List Access) : Prop :=
  ∀ (cr : Nat → Nat) (ρ : Nat → Nat → Nat) (es : List MEv) (Sf : Nat → XState), mrun cr minit es = some Sf →
    (∀ o, Conforms (cr o) (ρ o) tbl (proj o es)) → ∀ (o p q t₁ t₂ : Nat) (a b : Access),
    es[p]? = some (o, XEv.acc t₁ a) → es[q]? = some (o, XEv.acc t₂ b) → t₁ ≠ t₂ → conflict a b →
    MHB es p q ∨ MHB es q p

theorem noRace_of_mnoRace {tbl : List Access} (h : MNoRace tbl) : NoRace tbl := by
  intro cr ρ es sf hv hc i j t₁ t₂ a b hi hj hne hcf
  obtain ⟨S', hS'⟩ := mrun_onObj (cr := fun _ => cr) (o := 0) hv
  have hcs : ∀ o, Conforms cr ρ tbl (proj o (onObj 0 es)) := by
    intro o
    by_cases ho : 0 = o
    · subst ho; rw [proj_onObj_self]; exact hc
    · rw [proj_onObj_other ho]; exact conforms_nil _ _ _
  rcases h (fun _ => cr) (fun _ => ρ) (onObj 0 es) S' hS' hcs 0 i j t₁ t₂ a b (onObj_get hi) (onObj_get hj) hne hcf with h | h
  · exact Or.inl (hb_of_mhb_onObj h)
  · exact Or.inr (hb_of_mhb_onObj h)

/-- **Discipline ⇔ no race, with any number of instances.** -/
theorem many_noRace_iff {tbl : List Access} (hwf : ∀ a ∈ tbl, WfRow a) : raceFree tbl ↔ MNoRace tbl :=
  ⟨fun hrf _ _ _ _ hv hc _ _ _ _ _ _ _ hp hq hne hcf => many_no_data_race (fun _ => hrf) hv hc hp hq hne hcf,
   fun h => raceFree_of_noRace hwf (noRace_of_mnoRace h)⟩

/-! ### a lent argument next to the resource it is lent to

Object 0 is the resource (a `Value` with its `mu` = lock 0), object 1 the message a caller hands to a write
call; goroutine 1 is the caller (creator of the message), goroutine 2 a goroutine the library starts from a
timer with the message, goroutine 3 a reader of the resource.
0: the caller builds the message; 1–2: the write call arms the timer = hands the message over, the timer
goroutine starts; 3–5: under the RESOURCE's write lock the caller's side writes the message (Merge's in-place
filter); 6–7: a reader of the resource; 8: the timer goroutine reads the message. -/
def exLent : List MEv :=
  [(1, .acc 1 lentW), (1, .pub 1), (1, .get 2), (0, .acq 1 0 .excl), (1, .acc 1 lentW), (0, .rel 1 0 .excl),
   (0, .acq 3 0 .shared), (0, .rel 3 0 .shared), (1, .acc 2 lentR)]

end ScVerif.C11
