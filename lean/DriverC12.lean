import ScVerif.C12.Drv
def main : IO Unit := ScVerif.Line.runDriver ScVerif.C12.handle
