import ScVerif.C19.Drv
def main : IO Unit := ScVerif.Line.runDriver ScVerif.C19.handle
