import ScVerif.C19.Drv
def main : IO Unit := ScVerif.Line.runDriverS ScVerif.C19.DSt.init ScVerif.C19.handleD
