import ScVerif.C19.Drv
def main : IO Unit := ScVerif.Line.runDriverS ScVerif.C19.KSt.init ScVerif.C19.handleS
