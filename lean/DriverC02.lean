import ScVerif.C02.Drv
def main : IO Unit := ScVerif.Line.runDriver ScVerif.C02.handle
