import ScVerif.C13.Drv
def main : IO Unit := ScVerif.Line.runDriver ScVerif.C13.handle
