import ScVerif.C09.Drv
def main : IO Unit := ScVerif.Line.runDriver ScVerif.C09.handle
