import ScVerif.C03.Drv
def main : IO Unit := ScVerif.Line.runDriver ScVerif.C03.handle
