import ScVerif.C05.Drv
def main : IO Unit := ScVerif.Line.runDriver ScVerif.C05.handle
