import ScVerif.C05.Drv
def main : IO Unit := ScVerif.Line.runDriverS ([] : ScVerif.C05.Schema) ScVerif.C05.handleS
