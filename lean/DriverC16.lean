import ScVerif.C16.Drv
def main : IO Unit := ScVerif.Line.runDriver ScVerif.C16.handle
