import ScVerif.C15.Drv
def main : IO Unit := ScVerif.Line.runDriverS ([] : List String) ScVerif.C15.handleS
