import ScVerif.C15.Drv
def main : IO Unit := ScVerif.Line.runDriverS ({} : ScVerif.C15.St) ScVerif.C15.handleS
