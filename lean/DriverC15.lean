import ScVerif.C15.Drv
def main : IO Unit := ScVerif.Line.runDriver ScVerif.C15.handle
