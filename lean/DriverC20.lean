import ScVerif.C20.Drv
def main : IO Unit := ScVerif.Line.runDriver ScVerif.C20.handle
