import ScVerif.C04.Drv
def main : IO Unit := ScVerif.Line.runDriverS ({} : ScVerif.C04.DrvState) ScVerif.C04.handleS
