import ScVerif.C04.Drv
def main : IO Unit := ScVerif.Line.runDriver ScVerif.C04.handle
