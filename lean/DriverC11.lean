import ScVerif.C11.Drv
def main : IO Unit := ScVerif.Line.runDriver ScVerif.C11.handle
