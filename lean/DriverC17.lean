import ScVerif.C17.Drv
def main : IO Unit := ScVerif.Line.runDriver ScVerif.C17.handle
