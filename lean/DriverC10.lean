import ScVerif.C10.Drv
def main : IO Unit := ScVerif.Line.runDriver ScVerif.C10.handle
