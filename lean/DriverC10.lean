import ScVerif.C10.Drv
def main : IO Unit := ScVerif.Line.runDriverS ({} : ScVerif.C10.DState) ScVerif.C10.handleS
